(* ParseSound.v — C04 stage 1, soundness direction: if the recovering parser model runs
   SILENTLY (no diagnostic) on a token list without Error tokens whose spans are not 0..0 (what a
   silent lexer produces on a non-empty text), the token list is grammatical: it is the token
   list of a CST tree of the JSON token grammar ([gfile]).  The delicate point is the
   suppression of Parser::error (cooldown / repeated span): along a silent run neither can
   happen, so every call of Parser::error would have been recorded. *)
From Coq Require Import List Bool Arith NArith Lia.
Import ListNotations.
From JS Require Import Model.Base Model.Lexer Model.Parser
  Proofs.TextFacts Proofs.TextParser Proofs.CstTree Proofs.ParseComplete.

(* ---------- the token grammar as trees (no text, no document) ---------- *)
Inductive gt : ct -> Prop :=
| gt_null sp : gt (CR RLiteral [CT TNull sp])
| gt_true sp : gt (CR RLiteral [CR RBoolean [CT TTrue sp]])
| gt_false sp : gt (CR RLiteral [CR RBoolean [CT TFalse sp]])
| gt_num sp : gt (CR RLiteral [CT TNumber sp])
| gt_str sp : gt (CR RLiteral [CT TString sp])
| gt_arr0 sp1 w sp2 : wsf w -> gt (CR RArray (CT TLBrak sp1 :: w ++ [CT TRBrak sp2]))
| gt_arr sp1 w v w1 tl sp2 : wsf w -> gt v -> wsf w1 -> gtail tl ->
    gt (CR RArray (CT TLBrak sp1 :: w ++ (v :: w1 ++ tl) ++ [CT TRBrak sp2]))
| gt_obj0 sp1 w sp2 : wsf w -> gt (CR RObject (CT TLBrace sp1 :: w ++ [CT TRBrace sp2]))
| gt_obj sp1 w spk wa spc wb v w1 tl sp2 : wsf w -> wsf wa -> wsf wb -> gt v -> wsf w1 -> gmtail tl ->
    gt (CR RObject (CT TLBrace sp1 :: w ++ (member_ct spk wa spc wb v :: w1 ++ tl) ++ [CT TRBrace sp2]))
with gtail : list ct -> Prop :=
| gtail_nil : gtail []
| gtail_cons sp w' v w tl : wsf w' -> gt v -> wsf w -> gtail tl -> gtail (CT TComma sp :: w' ++ v :: w ++ tl)
with gmtail : list ct -> Prop :=
| gmtail_nil : gmtail []
| gmtail_cons sp w' spk wa spc wb v w tl : wsf w' -> wsf wa -> wsf wb -> gt v -> wsf w -> gmtail tl ->
    gmtail (CT TComma sp :: w' ++ member_ct spk wa spc wb v :: w ++ tl).

Inductive gfile : ct -> Prop :=
| gfile_intro w1 v w2 : wsf w1 -> gt v -> wsf w2 -> gfile (CR RFile (w1 ++ v :: w2)).

Scheme gt_mind := Minimality for gt Sort Prop
  with gtail_mind := Minimality for gtail Sort Prop
  with gmtail_mind := Minimality for gmtail Sort Prop.
Combined Scheme gt_mutind from gt_mind, gtail_mind, gmtail_mind.

(* ---------- what is observed of a state ---------- *)
Definition dlen (s : pst) : nat := length (p_diags s).

Definition same_obs (s s' : pst) : Prop :=
  p_rest s' = p_rest s /\ p_cool s' = p_cool s /\ p_last s' = p_last s /\ p_diags s' = p_diags s /\
  p_max s' = p_max s.

Lemma set_node_obs i v ns s : same_obs s (set_node i v ns s).
Proof. unfold set_node. destruct (if Nat.ltb i (p_nlen s) then _ else None); repeat split. Qed.

Lemma close_obs m r s : same_obs s (cst_close m r s).
Proof. unfold cst_close. destruct (Nat.ltb _ _); apply set_node_obs. Qed.

Lemma close_root_obs m r s : same_obs s (cst_close_root m r s).
Proof. apply set_node_obs. Qed.

Lemma opened_obs s : same_obs s (opened s).
Proof. repeat split. Qed.

Lemma skip_loop_obs : forall rest s, p_cool (skip_loop rest s) = p_cool s /\ p_last (skip_loop rest s) = p_last s /\
  p_diags (skip_loop rest s) = p_diags s /\ p_max (skip_loop rest s) = p_max s.
Proof.
  induction rest as [|[t sp] r IH]; intros s; cbn [skip_loop]; [repeat split|].
  destruct (is_skipped t); [|repeat split]. destruct (IH (cst_advance t true s)) as [A [B [C D]]].
  rewrite A, B, C, D. repeat split.
Qed.

Lemma padvance_diags e s : p_diags (padvance e s) = p_diags s.
Proof.
  unfold padvance. destruct (skip_loop_obs (tl (p_rest (cst_advance (cur (if e then s else with_cool false s)) false
                                                       (if e then s else with_cool false s))))
                              (cst_advance (cur (if e then s else with_cool false s)) false (if e then s else with_cool false s)))
    as [_ [_ [C _]]].
  rewrite C. destruct e; reflexivity.
Qed.

Lemma perror_dlen s : dlen s <= dlen (perror s).
Proof. unfold perror, dlen. destruct (p_cool s || span_eqb (p_last s) (pspan s)); cbn; lia. Qed.

Lemma expect_dlen t s : dlen s <= dlen (expect t s).
Proof.
  unfold expect. destruct (tok_eqb (cur s) t); [unfold dlen; rewrite padvance_diags; lia|apply perror_dlen].
Qed.

Lemma close_dlen m r s : dlen (cst_close m r s) = dlen s.
Proof. unfold dlen. destruct (close_obs m r s) as [_ [_ [_ [D _]]]]. rewrite D. reflexivity. Qed.

Lemma awe_dlen s : dlen s <= dlen (advance_with_error s).
Proof.
  unfold advance_with_error. rewrite cst_open_eq. rewrite close_dlen. unfold dlen at 2. rewrite padvance_diags.
  cbn [p_diags with_cool]. apply (perror_dlen (opened s)).
Qed.

Lemma boolean_dlen s : dlen s <= dlen (rule_boolean s).
Proof.
  unfold rule_boolean. rewrite cst_open_eq, close_dlen.
  destruct (cur (opened s)); try apply (expect_dlen _ (opened s)); apply (perror_dlen (opened s)).
Qed.

Lemma literal_dlen s : dlen s <= dlen (rule_literal s).
Proof.
  unfold rule_literal. rewrite cst_open_eq, close_dlen.
  destruct (cur (opened s)); try apply (expect_dlen _ (opened s)); try apply (perror_dlen (opened s));
    apply (boolean_dlen (opened s)).
Qed.

(* ---------- diagnostics only grow ---------- *)
Definition mono_o (s : pst) (o : option pst) : Prop := forall s', o = Some s' -> dlen s <= dlen s'.

Lemma mono_some s s1 : dlen s <= dlen s1 -> mono_o s (Some s1).
Proof. intros H s' E. inversion E; subst. exact H. Qed.

Lemma mono_bind s o g : mono_o s o -> (forall s1, mono_o s1 (g s1)) -> mono_o s (obind_opt o g).
Proof.
  intros Ho Hg s' E. destruct o as [s1|]; [|discriminate E]. cbn in E.
  specialize (Ho s1 eq_refl). specialize (Hg s1 s' E). lia.
Qed.

Lemma mono_weaken s s0 o : dlen s <= dlen s0 -> mono_o s0 o -> mono_o s o.
Proof. intros H Ho s' E. specialize (Ho s' E). lia. Qed.

Definition mono_claims (n : nat) : Prop :=
  (forall s, mono_o s (rule_value n s)) /\ (forall s, mono_o s (rule_object n s)) /\
  (forall s, mono_o s (object_loop n s)) /\ (forall s, mono_o s (rule_member n s)) /\
  (forall s, mono_o s (rule_array n s)) /\ (forall s, mono_o s (array_loop n s)).

Lemma mono_all : forall n, mono_claims n.
Proof.
  induction n as [|f IH].
  - repeat split; intros s s' E; discriminate E.
  - destruct IH as [IHv [IHo [IHol [IHm [IHa IHal]]]]].
    assert (Hmem : forall s, mono_o s (rule_member (S f) s)).
    { intros s. cbn [rule_member]. rewrite cst_open_eq.
      eapply mono_weaken; [|apply mono_bind; [apply IHv|]].
      - etransitivity; [apply (expect_dlen TString (opened s))|apply expect_dlen].
      - intros s1. apply mono_some. rewrite close_dlen. lia. }
    repeat split.
    + intros s. cbn [rule_value].
      destruct (cur s); try (apply mono_some; apply perror_dlen); try (apply mono_some; apply literal_dlen);
        [apply IHo|apply IHa].
    + intros s. cbn [rule_object]. rewrite cst_open_eq.
      eapply mono_weaken; [apply (expect_dlen TLBrace (opened s))|]. apply mono_bind.
      * destruct (cur (expect TLBrace (opened s))); try (apply mono_some; apply perror_dlen);
          try (apply mono_some; lia).
        apply mono_bind; [apply IHm|apply IHol].
      * intros s1. apply mono_some. rewrite close_dlen. apply expect_dlen.
    + intros s. cbn [object_loop].
      destruct (cur s); try (apply mono_some; lia);
        try (eapply mono_weaken; [apply awe_dlen|apply IHol]).
      eapply mono_weaken; [apply (expect_dlen TComma s)|]. apply mono_bind; [apply IHm|apply IHol].
    + exact Hmem.
    + intros s. cbn [rule_array]. rewrite cst_open_eq.
      eapply mono_weaken; [apply (expect_dlen TLBrak (opened s))|]. apply mono_bind.
      * destruct (cur (expect TLBrak (opened s))); try (apply mono_some; apply perror_dlen);
          try (apply mono_some; lia); (apply mono_bind; [apply IHv|apply IHal]).
      * intros s1. apply mono_some. rewrite close_dlen. apply expect_dlen.
    + intros s. cbn [array_loop].
      destruct (cur s); try (apply mono_some; lia);
        try (eapply mono_weaken; [apply awe_dlen|apply IHal]).
      eapply mono_weaken; [apply (expect_dlen TComma s)|]. apply mono_bind; [apply IHv|apply IHal].
Qed.

(* ---------- silent runs ---------- *)
Definition tclean (ts : tok * span) : Prop := fst ts <> TError /\ fst ts <> TEOF /\ snd ts <> (0%N, 0%N).
Definition clean (rest : list (tok * span)) : Prop := Forall tclean rest.

Record good (s : pst) : Prop := {
  g_cool : p_cool s = false;
  g_last : p_last s = (0%N, 0%N);
  g_diags : p_diags s = [];
  g_clean : clean (p_rest s);
  g_max : p_max s <> 0%N
}.

Lemma good_obs s s' : good s -> same_obs s s' -> good s'.
Proof.
  intros [A B C D E] [R [Co [L [Di M]]]]. constructor; congruence.
Qed.

Lemma silent_perror s : good s -> dlen (perror s) = 0 -> False.
Proof.
  intros [A B C D E] H. unfold perror, dlen in H. rewrite A, B in H. cbn [orb] in H.
  assert (X : span_eqb (0%N, 0%N) (pspan s) = false).
  { unfold pspan. destruct (p_rest s) as [|[t sp] r].
    - unfold span_eqb. cbn [fst snd]. destruct (p_max s); [contradiction|reflexivity].
    - inversion D as [|? ? [_ [_ Hsp]] _]; subst. cbn [snd] in Hsp. unfold span_eqb.
      destruct sp as [a b]. cbn [fst snd]. destruct a, b; try reflexivity. contradiction. }
  rewrite X in H. cbn in H. discriminate H.
Qed.

Lemma split_skipped : forall r, clean r -> exists w rest, r = cstoks w ++ rest /\ wsf w /\ sigh rest /\ clean rest.
Proof.
  induction r as [|[t sp] r IH]; intros H.
  - exists [], []. repeat split; constructor.
  - pose proof (Forall_inv H) as [Ht _]. pose proof (Forall_inv_tail H) as Hr. cbn [fst] in Ht. destruct (is_skipped t) eqn:Es.
    + destruct (IH Hr) as [w [rest [E [Hw [Hs Hc]]]]]. exists (CT t sp :: w), rest.
      split; [rewrite cstoks_cons, E; reflexivity|]. split; [|split; assumption].
      constructor; [|exact Hw]. destruct t; try discriminate Es; try reflexivity. contradiction.
    + exists [], ((t, sp) :: r). repeat split; [constructor|exact Es|exact H].
Qed.

(* a silent [expect]: the token was there *)
Lemma silent_expect t s : good s -> dlen (expect t s) = 0 -> t <> TEOF ->
  exists sp w rest, p_rest s = (t, sp) :: cstoks w ++ rest /\ wsf w /\ sigh rest /\
    p_rest (expect t s) = rest /\ good (expect t s).
Proof.
  intros G H Ht. destruct (tok_eqb (cur s) t) eqn:E.
  - apply tok_eqb_eq in E. destruct (cur_rest s t E Ht) as [sp [r Hr]].
    pose proof (g_clean s G) as Hc. rewrite Hr in Hc. pose proof (Forall_inv_tail Hc) as Hcr.
    destruct (split_skipped r Hcr) as [w [rest [Er [Hw [Hs Hcl]]]]]. subst r.
    exists sp, w, rest. rewrite (expect_eq s t sp w rest Hr Hw Hs).
    split; [exact Hr|]. split; [exact Hw|]. split; [exact Hs|]. split; [reflexivity|].
    destruct G as [A B C D M]. constructor; cbn; try assumption; reflexivity.
  - exfalso. unfold expect in H. rewrite E in H. exact (silent_perror s G H).
Qed.

Definition RV (s s' : pst) : Prop :=
  exists t w rest, gt t /\ wsf w /\ sigh rest /\ p_rest s = ctoks t ++ cstoks w ++ rest /\
    p_rest s' = rest /\ good s'.

Definition stops (s : pst) : Prop := cur s = TRBrak \/ cur s = TEOF \/ cur s = TRBrace.

Definition RAL (s s' : pst) : Prop :=
  exists tl, gtail tl /\ p_rest s = cstoks tl ++ p_rest s' /\ good s' /\ stops s'.

Definition ROL (s s' : pst) : Prop :=
  exists tl, gmtail tl /\ p_rest s = cstoks tl ++ p_rest s' /\ good s' /\ stops s'.

Definition RM (s s' : pst) : Prop :=
  exists spk wa spc wb v w rest, wsf wa /\ wsf wb /\ gt v /\ wsf w /\ sigh rest /\
    p_rest s = ctoks (member_ct spk wa spc wb v) ++ cstoks w ++ rest /\ p_rest s' = rest /\ good s'.

Lemma silent_close m r s s' : cst_close m r s = s' -> dlen s' = 0 -> dlen s = 0.
Proof. intros <- H. rewrite close_dlen in H. exact H. Qed.

Lemma good_close m r s : good s -> good (cst_close m r s).
Proof. intros G. eapply good_obs; [exact G|apply close_obs]. Qed.

Lemma close_rest m r s : p_rest (cst_close m r s) = p_rest s.
Proof. destruct (close_obs m r s) as [R _]. exact R. Qed.

Lemma good_opened s : good s -> good (opened s).
Proof. intros G. eapply good_obs; [exact G|apply opened_obs]. Qed.

(* literals *)
Lemma silent_boolean s : good s -> dlen (rule_boolean s) = 0 ->
  exists t sp w rest, (t = TTrue \/ t = TFalse) /\ wsf w /\ sigh rest /\
    p_rest s = (t, sp) :: cstoks w ++ rest /\ p_rest (rule_boolean s) = rest /\ good (rule_boolean s).
Proof.
  intros G H. unfold rule_boolean in *. rewrite cst_open_eq in *. rewrite close_dlen in H. rewrite close_rest.
  pose proof (good_opened s G) as G1.
  destruct (cur (opened s)) eqn:Ec; try (exfalso; exact (silent_perror _ G1 H)).
  - destruct (silent_expect TTrue _ G1 H ltac:(discriminate)) as [sp [w [rest [Hr [Hw [Hs [Hr' G']]]]]]].
    exists TTrue, sp, w, rest. split; [left; reflexivity|]. split; [exact Hw|]. split; [exact Hs|].
    split; [exact Hr|]. split; [exact Hr'|apply good_close; exact G'].
  - destruct (silent_expect TFalse _ G1 H ltac:(discriminate)) as [sp [w [rest [Hr [Hw [Hs [Hr' G']]]]]]].
    exists TFalse, sp, w, rest. split; [right; reflexivity|]. split; [exact Hw|]. split; [exact Hs|].
    split; [exact Hr|]. split; [exact Hr'|apply good_close; exact G'].
Qed.

Lemma silent_literal s : good s -> dlen (rule_literal s) = 0 -> RV s (rule_literal s).
Proof.
  intros G H. unfold rule_literal in *. rewrite cst_open_eq in *. rewrite close_dlen in H.
  pose proof (good_opened s G) as G1. unfold RV. rewrite close_rest.
  destruct (cur (opened s)) eqn:Ec; try (exfalso; exact (silent_perror _ G1 H)).
  - destruct (silent_boolean _ G1 H) as [t [sp [w [rest [Ht [Hw [Hs [Hr [Hr' G']]]]]]]]].
    destruct Ht as [-> | ->].
    + exists (CR RLiteral [CR RBoolean [CT TTrue sp]]), w, rest. split; [constructor|]. split; [exact Hw|]. split; [exact Hs|]. split; [exact Hr|]. split; [exact Hr'|apply good_close; exact G'].
    + exists (CR RLiteral [CR RBoolean [CT TFalse sp]]), w, rest. split; [constructor|]. split; [exact Hw|]. split; [exact Hs|]. split; [exact Hr|]. split; [exact Hr'|apply good_close; exact G'].
  - destruct (silent_boolean _ G1 H) as [t [sp [w [rest [Ht [Hw [Hs [Hr [Hr' G']]]]]]]]].
    destruct Ht as [-> | ->].
    + exists (CR RLiteral [CR RBoolean [CT TTrue sp]]), w, rest. split; [constructor|]. split; [exact Hw|]. split; [exact Hs|]. split; [exact Hr|]. split; [exact Hr'|apply good_close; exact G'].
    + exists (CR RLiteral [CR RBoolean [CT TFalse sp]]), w, rest. split; [constructor|]. split; [exact Hw|]. split; [exact Hs|]. split; [exact Hr|]. split; [exact Hr'|apply good_close; exact G'].
  - destruct (silent_expect TNull _ G1 H ltac:(discriminate)) as [sp [w [rest [Hr [Hw [Hs [Hr' G']]]]]]].
    exists (CR RLiteral [CT TNull sp]), w, rest. split; [constructor|]. split; [exact Hw|]. split; [exact Hs|]. split; [exact Hr|]. split; [exact Hr'|apply good_close; exact G'].
  - destruct (silent_expect TString _ G1 H ltac:(discriminate)) as [sp [w [rest [Hr [Hw [Hs [Hr' G']]]]]]].
    exists (CR RLiteral [CT TString sp]), w, rest. split; [constructor|]. split; [exact Hw|]. split; [exact Hs|]. split; [exact Hr|]. split; [exact Hr'|apply good_close; exact G'].
  - destruct (silent_expect TNumber _ G1 H ltac:(discriminate)) as [sp [w [rest [Hr [Hw [Hs [Hr' G']]]]]]].
    exists (CR RLiteral [CT TNumber sp]), w, rest. split; [constructor|]. split; [exact Hw|]. split; [exact Hs|]. split; [exact Hr|]. split; [exact Hr'|apply good_close; exact G'].
Qed.

Lemma silent_awe s : good s -> dlen (advance_with_error s) = 0 -> False.
Proof.
  intros G H. unfold advance_with_error in H. rewrite cst_open_eq, close_dlen in H. unfold dlen in H.
  rewrite padvance_diags in H. cbn [p_diags with_cool] in H. exact (silent_perror _ (good_opened s G) H).
Qed.

Lemma stops_sigh s : stops s -> sigh (p_rest s).
Proof.
  unfold stops, cur, sigh. destruct (p_rest s) as [|[t sp] r]; [intros _; exact I|].
  intros [->|[->| ->]]; reflexivity.
Qed.

Ltac tn := unfold member_ct;
  repeat (rewrite cstoks_cons || rewrite cstoks_app || rewrite ctoks_CR);
  cbn [ctoks]; change (cstoks []) with (@nil (tok * span)); rewrite ?app_nil_r;
  repeat ((rewrite <- app_assoc) || (progress (cbn [app]))); reflexivity.

Definition sound_claims (n : nat) : Prop :=
  (forall s s', good s -> rule_value n s = Some s' -> dlen s' = 0 -> RV s s') /\
  (forall s s', good s -> cur s = TLBrace -> rule_object n s = Some s' -> dlen s' = 0 -> RV s s') /\
  (forall s s', good s -> object_loop n s = Some s' -> dlen s' = 0 -> ROL s s') /\
  (forall s s', good s -> rule_member n s = Some s' -> dlen s' = 0 -> RM s s') /\
  (forall s s', good s -> cur s = TLBrak -> rule_array n s = Some s' -> dlen s' = 0 -> RV s s') /\
  (forall s s', good s -> array_loop n s = Some s' -> dlen s' = 0 -> RAL s s').

Lemma le0 a b : a <= b -> b = 0 -> a = 0.
Proof. lia. Qed.

Lemma sound_all : forall n, sound_claims n.
Proof.
  induction n as [|f IH].
  - repeat split; intros; discriminate.
  - destruct IH as [IHv [IHo [IHol [IHm [IHa IHal]]]]].
    destruct (mono_all f) as [Mv [Mo [Mol [Mm [Ma Mal]]]]].
    assert (Hmember : forall s s', good s -> rule_member (S f) s = Some s' -> dlen s' = 0 -> RM s s').
    { intros s s' G E H. cbn [rule_member] in E. rewrite cst_open_eq in E.
      set (s1 := opened s) in *. set (s2 := expect TString s1) in *. set (s3 := expect TColon s2) in *.
      destruct (rule_value f s3) as [s4|] eqn:Ev; [|discriminate E]. cbn [obind_opt] in E. inversion E; subst s'. clear E.
      rewrite close_dlen in H.
      assert (H3 : dlen s3 = 0) by (apply (le0 _ _ (Mv s3 s4 Ev) H)).
      assert (H2 : dlen s2 = 0) by (apply (le0 _ _ (expect_dlen TColon s2) H3)).
      destruct (silent_expect TString s1 (good_opened s G) H2 ltac:(discriminate)) as [spk [wa [r1 [Hr1 [Hwa [Hs1 [Hr2 G2]]]]]]].
      destruct (silent_expect TColon s2 G2 H3 ltac:(discriminate)) as [spc [wb [r2 [Hr2' [Hwb [Hs2 [Hr3 G3]]]]]]].
      destruct (IHv s3 s4 G3 Ev H) as [v [w [rest [Hv [Hw [Hs [Hr3' [Hr4 G4]]]]]]]].
      exists spk, wa, spc, wb, v, w, rest. repeat (split; [assumption|]).
      split; [|split; [rewrite close_rest; exact Hr4|apply good_close; exact G4]].
      change (p_rest s) with (p_rest s1). fold s2 in Hr2. fold s3 in Hr3.
      rewrite Hr1. rewrite <- Hr2, Hr2'. rewrite <- Hr3, Hr3'. tn. }
    repeat split.
    + (* rule_value *)
      intros s s' G E H. cbn [rule_value] in E.
      destruct (cur s) eqn:Ec;
        try (inversion E; subst s'; exfalso; exact (silent_perror s G H));
        try (inversion E; subst s'; apply silent_literal; assumption).
      * apply IHo; assumption.
      * apply IHa; assumption.
    + (* rule_object *)
      intros s s' G Ec E H. cbn [rule_object] in E. rewrite cst_open_eq in E.
      set (s1 := opened s) in *. set (s2 := expect TLBrace s1) in *.
      destruct (match cur s2 with
                | TString => obind_opt (rule_member f s2) (object_loop f)
                | TRBrace => Some s2
                | _ => Some (perror s2)
                end) as [s3|] eqn:Eb; [|discriminate E].
      cbn [obind_opt] in E. inversion E; subst s'. clear E. rewrite close_dlen in H.
      assert (H3 : dlen s3 = 0) by (apply (le0 _ _ (expect_dlen TRBrace s3) H)).
      assert (H2 : dlen s2 = 0).
      { refine (le0 _ _ _ H3). destruct (cur s2); try (inversion Eb; subst; apply perror_dlen); try (inversion Eb; subst; lia).
        revert Eb. apply (mono_bind s2 _ _ (Mm s2) Mol). }
      destruct (silent_expect TLBrace s1 (good_opened s G) H2 ltac:(discriminate)) as [sp1 [w [r1 [Hr1 [Hw [Hs1 [Hr2 G2]]]]]]].
      fold s2 in Hr2, G2.
      destruct (cur s2) eqn:Ec2;
        try (inversion Eb; subst s3; exfalso; exact (silent_perror s2 G2 H3)).
      * (* } *)
        inversion Eb; subst s3.
        destruct (silent_expect TRBrace s2 G2 H ltac:(discriminate)) as [sp2 [w0 [rest [Hr3 [Hw0 [Hs0 [Hr4 G4]]]]]]].
        exists (CR RObject (CT TLBrace sp1 :: w ++ [CT TRBrace sp2])), w0, rest.
        split; [constructor; exact Hw|]. split; [exact Hw0|]. split; [exact Hs0|].
        split; [|split; [rewrite close_rest; exact Hr4|apply good_close; exact G4]].
        change (p_rest s) with (p_rest s1). rewrite Hr1, <- Hr2, Hr3. tn.
      * (* members *)
        destruct (rule_member f s2) as [s2'|] eqn:Em; [|discriminate Eb]. cbn [obind_opt] in Eb.
        assert (H2' : dlen s2' = 0) by (apply (le0 _ _ (Mol s2' s3 Eb) H3)).
        destruct (IHm s2 s2' G2 Em H2') as [spk [wa [spc [wb [v [w1 [r3 [Hwa [Hwb [Hv [Hw1 [Hs3 [Hr2' [Hr3 G3]]]]]]]]]]]]]].
        destruct (IHol s2' s3 G3 Eb H3) as [tl [Htl [Hr3' [G3' St]]]].
        destruct (silent_expect TRBrace s3 G3' H ltac:(discriminate)) as [sp2 [w0 [rest [Hr4 [Hw0 [Hs0 [Hr5 G5]]]]]]].
        exists (CR RObject (CT TLBrace sp1 :: w ++ (member_ct spk wa spc wb v :: w1 ++ tl) ++ [CT TRBrace sp2])), w0, rest.
        split; [constructor; assumption|]. split; [exact Hw0|]. split; [exact Hs0|].
        split; [|split; [rewrite close_rest; exact Hr5|apply good_close; exact G5]].
        change (p_rest s) with (p_rest s1). rewrite Hr1, <- Hr2, Hr2', <- Hr3, Hr3', Hr4. tn.
    + (* object_loop *)
      intros s s' G E H. cbn [object_loop] in E.
      destruct (cur s) eqn:Ec;
        try (exfalso; apply (silent_awe s G); apply (le0 _ _ (Mol _ _ E) H)).
      * inversion E; subst s'. exists []. split; [constructor|]. split; [reflexivity|]. split; [exact G|]. first [left; exact Ec|right; left; exact Ec|right; right; exact Ec].
      * inversion E; subst s'. exists []. split; [constructor|]. split; [reflexivity|]. split; [exact G|]. first [left; exact Ec|right; left; exact Ec|right; right; exact Ec].
      * inversion E; subst s'. exists []. split; [constructor|]. split; [reflexivity|]. split; [exact G|]. first [left; exact Ec|right; left; exact Ec|right; right; exact Ec].
      * set (s1 := expect TComma s) in *.
        destruct (rule_member f s1) as [s2|] eqn:Em; [|discriminate E]. cbn [obind_opt] in E.
        assert (H2 : dlen s2 = 0) by (apply (le0 _ _ (Mol s2 s' E) H)).
        assert (H1 : dlen s1 = 0) by (apply (le0 _ _ (Mm s1 s2 Em) H2)).
        destruct (silent_expect TComma s G H1 ltac:(discriminate)) as [sp [w' [r1 [Hr1 [Hw' [Hs1 [Hr1' G1]]]]]]].
        fold s1 in Hr1', G1.
        destruct (IHm s1 s2 G1 Em H2) as [spk [wa [spc [wb [v [w [r2 [Hwa [Hwb [Hv [Hw [Hs2 [Hr2 [Hr2' G2]]]]]]]]]]]]]].
        destruct (IHol s2 s' G2 E H) as [tl [Htl [Hr3 [G3 St]]]].
        exists (CT TComma sp :: w' ++ member_ct spk wa spc wb v :: w ++ tl).
        split; [constructor; assumption|]. split; [|split; assumption].
        rewrite Hr1, <- Hr1', Hr2, <- Hr2', Hr3. tn.
    + exact Hmember.
    + (* rule_array *)
      intros s s' G Ec E H. cbn [rule_array] in E. rewrite cst_open_eq in E.
      set (s1 := opened s) in *. set (s2 := expect TLBrak s1) in *.
      destruct (match cur s2 with
                | TFalse | TLBrace | TLBrak | TNull | TNumber | TString | TTrue =>
                    obind_opt (rule_value f s2) (array_loop f)
                | TRBrak => Some s2
                | _ => Some (perror s2)
                end) as [s3|] eqn:Eb; [|discriminate E].
      cbn [obind_opt] in E. inversion E; subst s'. clear E. rewrite close_dlen in H.
      assert (H3 : dlen s3 = 0) by (apply (le0 _ _ (expect_dlen TRBrak s3) H)).
      assert (H2 : dlen s2 = 0).
      { refine (le0 _ _ _ H3). destruct (cur s2); try (inversion Eb; subst; apply perror_dlen); try (inversion Eb; subst; lia);
          (revert Eb; apply (mono_bind s2 _ _ (Mv s2) Mal)). }
      destruct (silent_expect TLBrak s1 (good_opened s G) H2 ltac:(discriminate)) as [sp1 [w [r1 [Hr1 [Hw [Hs1 [Hr2 G2]]]]]]].
      fold s2 in Hr2, G2.
      destruct (vstart (cur s2)) eqn:Evs.
      * (* elements *)
        rewrite (vstart_match (cur s2) _ _ _ Evs) in Eb.
        destruct (rule_value f s2) as [s2'|] eqn:Ev; [|discriminate Eb]. cbn [obind_opt] in Eb.
        assert (H2' : dlen s2' = 0) by (apply (le0 _ _ (Mal s2' s3 Eb) H3)).
        destruct (IHv s2 s2' G2 Ev H2') as [v [w1 [r3 [Hv [Hw1 [Hs3 [Hr2' [Hr3 G3]]]]]]]].
        destruct (IHal s2' s3 G3 Eb H3) as [tl [Htl [Hr3' [G3' St]]]].
        destruct (silent_expect TRBrak s3 G3' H ltac:(discriminate)) as [sp2 [w0 [rest [Hr4 [Hw0 [Hs0 [Hr5 G5]]]]]]].
        exists (CR RArray (CT TLBrak sp1 :: w ++ (v :: w1 ++ tl) ++ [CT TRBrak sp2])), w0, rest.
        split; [constructor; assumption|]. split; [exact Hw0|]. split; [exact Hs0|].
        split; [|split; [rewrite close_rest; exact Hr5|apply good_close; exact G5]].
        change (p_rest s) with (p_rest s1). rewrite Hr1, <- Hr2, Hr2', <- Hr3, Hr3', Hr4. tn.
      * destruct (cur s2) eqn:Ec2; try discriminate Evs;
          try (inversion Eb; subst s3; exfalso; exact (silent_perror s2 G2 H3)).
        inversion Eb; subst s3.
        destruct (silent_expect TRBrak s2 G2 H ltac:(discriminate)) as [sp2 [w0 [rest [Hr3 [Hw0 [Hs0 [Hr4 G4]]]]]]].
        exists (CR RArray (CT TLBrak sp1 :: w ++ [CT TRBrak sp2])), w0, rest.
        split; [constructor; exact Hw|]. split; [exact Hw0|]. split; [exact Hs0|].
        split; [|split; [rewrite close_rest; exact Hr4|apply good_close; exact G4]].
        change (p_rest s) with (p_rest s1). rewrite Hr1, <- Hr2, Hr3. tn.
    + (* array_loop *)
      intros s s' G E H. cbn [array_loop] in E.
      destruct (cur s) eqn:Ec;
        try (exfalso; apply (silent_awe s G); apply (le0 _ _ (Mal _ _ E) H)).
      * inversion E; subst s'. exists []. split; [constructor|]. split; [reflexivity|]. split; [exact G|]. first [left; exact Ec|right; left; exact Ec|right; right; exact Ec].
      * inversion E; subst s'. exists []. split; [constructor|]. split; [reflexivity|]. split; [exact G|]. first [left; exact Ec|right; left; exact Ec|right; right; exact Ec].
      * inversion E; subst s'. exists []. split; [constructor|]. split; [reflexivity|]. split; [exact G|]. first [left; exact Ec|right; left; exact Ec|right; right; exact Ec].
      * set (s1 := expect TComma s) in *.
        destruct (rule_value f s1) as [s2|] eqn:Ev; [|discriminate E]. cbn [obind_opt] in E.
        assert (H2 : dlen s2 = 0) by (apply (le0 _ _ (Mal s2 s' E) H)).
        assert (H1 : dlen s1 = 0) by (apply (le0 _ _ (Mv s1 s2 Ev) H2)).
        destruct (silent_expect TComma s G H1 ltac:(discriminate)) as [sp [w' [r1 [Hr1 [Hw' [Hs1 [Hr1' G1]]]]]]].
        fold s1 in Hr1', G1.
        destruct (IHv s1 s2 G1 Ev H2) as [v [w [r2 [Hv [Hw [Hs2 [Hr2 [Hr2' G2]]]]]]]].
        destruct (IHal s2 s' G2 E H) as [tl [Htl [Hr3 [G3 St]]]].
        exists (CT TComma sp :: w' ++ v :: w ++ tl).
        split; [constructor; assumption|]. split; [|split; assumption].
        rewrite Hr1, <- Hr1', Hr2, <- Hr2', Hr3. tn.
Qed.

(* ---------- the file rule ---------- *)
Lemma drain_diags : forall rest s, p_diags (drain rest s) = p_diags s.
Proof. induction rest as [|[t sp] r IH]; intros s; cbn [drain]; [reflexivity|]. rewrite IH. reflexivity. Qed.

Theorem parse_sound toks mx : clean toks -> mx <> 0%N ->
  pr_diags (parse_tokens toks mx []) = [] -> exists t, gfile t /\ toks = ctoks t.
Proof.
  intros Hc Hm Hd. unfold parse_tokens in Hd.
  destruct (rule_file_ok mx toks) as [sF [EF _]]. rewrite EF in Hd. cbn [pr_diags app] in Hd.
  assert (HdF : dlen sF = 0).
  { unfold dlen. rewrite <- (rev_length (p_diags sF)), Hd. reflexivity. }
  clear Hd. unfold rule_file in EF. rewrite cst_open_eq in EF.
  set (s0 := init_pst toks mx) in *.
  destruct (split_skipped toks Hc) as [w1 [r1 [Et [Hw1 [Hs1 Hc1]]]]].
  assert (Ei : init_skip (opened s0) = fres (opened s0) w1 (p_nonskip (opened s0)) r1 (p_cool (opened s0))).
  { unfold init_skip. change (p_rest (opened s0)) with toks. rewrite Et. apply skip_loop_eq; assumption. }
  rewrite Ei in EF. set (s1 := fres (opened s0) w1 (p_nonskip (opened s0)) r1 (p_cool (opened s0))) in *.
  assert (G1 : good s1) by (constructor; cbn; try reflexivity; assumption).
  destruct (rule_value (parse_fuel toks) s1) as [s3|] eqn:Ev; [|discriminate EF]. cbn [obind_opt] in EF.
  destruct (mono_all (parse_fuel toks)) as [Mv _]. destruct (sound_all (parse_fuel toks)) as [Sv _].
  assert (Hfin : (cur s3 = TEOF /\ dlen s3 = 0) \/ (dlen (perror s3) = 0)).
  { assert (HX : exists X, sF = cst_close_root 0 RFile X /\ ((cur s3 = TEOF /\ X = s3) \/ dlen X = dlen (perror s3))).
    { exists (match cur s3 with
              | TEOF => s3
              | _ => let s := perror s3 in let '(et, s) := cst_open s in
                     let s := drain (p_rest s) s in cst_close et RError s
              end).
      split; [injection EF as EF'; symmetry; exact EF'|].
      destruct (cur s3); [left; split; reflexivity|right; cbv zeta; rewrite cst_open_eq, close_dlen; unfold dlen;
                          rewrite drain_diags; reflexivity ..]. }
    destruct HX as [X [-> HX]].
    assert (DX : dlen X = 0).
    { unfold dlen in *. destruct (close_root_obs 0 RFile X) as [_ [_ [_ [D _]]]]. rewrite <- D. exact HdF. }
    destruct HX as [[Ec ->]|HX]; [left; split; [exact Ec|exact DX]|right; rewrite <- HX; exact DX]. }
  assert (H3 : dlen s3 = 0).
  { destruct Hfin as [[_ H]|H]; [exact H|exact (le0 _ _ (perror_dlen s3) H)]. }
  destruct (Sv s1 s3 G1 Ev H3) as [v [w2 [rest [Hv [Hw2 [Hs [Hr1 [Hr3 G3]]]]]]]].
  assert (Hrest : rest = []).
  { destruct Hfin as [[Ec _]|H]; [|exfalso; exact (silent_perror s3 G3 H)].
    unfold cur in Ec. rewrite Hr3 in Ec. destruct rest as [|[t sp] r]; [reflexivity|].
    subst t. pose proof (g_clean s3 G3) as Hcl. rewrite Hr3 in Hcl. destruct (Forall_inv Hcl) as [_ [X _]]. contradiction. }
  rewrite Hrest in Hr1. exists (CR RFile (w1 ++ v :: w2)). split; [constructor; assumption|].
  rewrite Et. change (p_rest s1) with r1 in Hr1. rewrite Hr1, ctoks_CR, cstoks_app, cstoks_cons. rewrite app_nil_r. reflexivity.
Qed.
