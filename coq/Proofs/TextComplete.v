(* TextComplete.v — completeness of the text pipeline (the "grammatical texts are accepted"
   half of C04, and the text level of C07):
     from_str_complete : every text of the RFC 8259 grammar with tree d, nested at most 256 deep,
                         is converted exactly like the tree: from_str_m s = lift (infer_text d);
     render_grammatical: every rendering [render_text ch d] (Model/JsonRef.v) of a document whose
                         member names are renderable is such a text, with tree d;
     parse_render      : their composition, for every choice list. *)
From Coq Require Import List Bool Arith NArith Lia Permutation.
Import ListNotations.
From JS Require Import Model.Base Model.Shape Model.Sem Model.Infer Model.Lexer Model.Parser Model.Walk
  Model.TextApi Model.JsonRef
  Proofs.TextFacts Proofs.InferSound Proofs.InferLaws Proofs.InferNoPanic Proofs.InferInvariance Proofs.InferFacts Proofs.InferTotal Proofs.CstTree Proofs.LexComplete Proofs.ParseComplete
  Proofs.WalkComplete Proofs.JsonRefSound.

Theorem from_str_complete cf s d : f3_cr_newline cf = true -> json_text s d -> jdepth d <= 256 ->
  from_str_m cf s = lift_infer (infer_text d).
Proof.
  intros F3 Hj Hd. destruct (lex_complete cf F3 s d Hj Hd) as [t [Ht El]].
  unfold from_str_m, parse_text. rewrite El. cbn [l_toks l_diags l_status].
  destruct (parse_complete s d t (byte_len s) [] Ht) as [Ps [Pd [Pn Pp]]].
  rewrite Ps, Pd. rewrite (walk_complete s _ d t Ht Pn Pp).
  destruct (lift_infer (infer_text d)) as [sh|e|]; cbn [obind]; [|reflexivity|reflexivity].
  destruct (f2_honour_diags cf); reflexivity.
Qed.

(* acceptance: the <= direction of C04_main *)
Theorem grammatical_accepted cf s : f3_cr_newline cf = true ->
  (exists d, json_text s d /\ jdepth d <= 256 /\ dup_consistent d = true) -> accepts cf s = true.
Proof.
  intros F3 [d [Hj [Hd Hc]]]. unfold accepts. rewrite (from_str_complete cf s d F3 Hj Hd).
  destruct (infer_total_dup d Hc) as [sh E]. rewrite E. reflexivity.
Qed.

(* C07 at text level: two texts with the same tree are converted alike *)
Theorem same_tree_same_result cf s s' d : f3_cr_newline cf = true -> json_text s d -> json_text s' d ->
  jdepth d <= 256 -> from_str_m cf s = from_str_m cf s'.
Proof.
  intros F3 H H' Hd. rewrite (from_str_complete cf s d F3 H Hd), (from_str_complete cf s' d F3 H' Hd). reflexivity.
Qed.

(* ---------- the renderer produces grammatical texts ---------- *)
(* a member name the renderer can spell: its characters form an RFC string body and
   re-encode to the same bytes (names obtained from texts always do) *)
Definition key_ok (k : key) : Prop := str_chars (key_chars k) /\ raw_key (key_chars k) = k.

Fixpoint keys_ok (d : json) : Prop :=
  match d with
  | JArr l => (fix go (l : list json) : Prop := match l with [] => True | x :: r => keys_ok x /\ go r end) l
  | JObj m => (fix go (m : list (key * json)) : Prop :=
                 match m with [] => True | (k, v) :: r => key_ok k /\ keys_ok v /\ go r end) m
  | _ => True
  end.

(* executable form, for examples and for the checks *)
Definition key_okb (k : key) : bool :=
  match ref_string (key_chars k ++ [34%N]) with
  | Some (b, []) => chars_eqb b (key_chars k) && key_eqb (raw_key (key_chars k)) k
  | _ => false
  end.

Fixpoint keys_okb (d : json) : bool :=
  match d with
  | JArr l => forallb keys_okb l
  | JObj m => forallb (fun kv => key_okb (fst kv) && keys_okb (snd kv)) m
  | _ => true
  end.

Lemma key_okb_ok k : key_okb k = true -> key_ok k.
Proof.
  unfold key_okb. destruct (ref_string (key_chars k ++ [34%N])) as [[b x]|] eqn:E; [|discriminate].
  destruct x; [|discriminate]. intros H. apply andb_true_iff in H. destruct H as [H1 H2].
  apply TextLexSpec.chars_eqb_eq in H1. subst b. apply BaseFacts.key_eqb_eq in H2.
  destruct (ref_string_sound _ _ _ _ (le_n _) E) as [_ Hs]. split; assumption.
Qed.

Lemma keys_okb_ok : forall d, keys_okb d = true -> keys_ok d.
Proof.
  induction d as [| | | |l IH|m IH] using json_ind'; intros H; try exact I.
  - cbn [keys_okb] in H. cbn [keys_ok]. induction IH as [|x r Hx _ IHr]; [exact I|].
    cbn [forallb] in H. apply andb_true_iff in H. destruct H as [H1 H2]. split; [apply Hx; exact H1|apply IHr; exact H2].
  - cbn [keys_okb] in H. cbn [keys_ok]. induction IH as [|[k v] r Hx _ IHr]; [exact I|].
    cbn [forallb fst snd] in H. apply andb_true_iff in H. destruct H as [H1 H2].
    apply andb_true_iff in H1. destruct H1 as [H0 H1].
    split; [apply key_okb_ok; exact H0|]. split; [apply Hx; exact H1|apply IHr; exact H2].
Qed.

(* the tables *)
Lemma pick_in {A} (P : A -> Prop) (tbl : list A) dflt n : tbl <> [] -> Forall P tbl -> P (pick tbl dflt n).
Proof.
  intros Hne Hf. unfold pick. rewrite Forall_forall in Hf. apply Hf. apply nth_In.
  apply Nat.mod_upper_bound. destruct tbl; [contradiction|discriminate].
Qed.

Lemma num_check n : ref_number n = Some [] -> number_lit n.
Proof.
  intros H. destruct (ref_number_sound _ _ H) as [w [E Hw]]. rewrite app_nil_r in E. subst. exact Hw.
Qed.

Lemma str_check b : ref_string (b ++ [34%N]) = Some (b, []) -> str_chars b.
Proof. intros H. destruct (ref_string_sound _ _ _ _ (le_n _) H) as [_ Hs]. exact Hs. Qed.

Lemma ws_table_ok n : ws (pick ws_table [] n).
Proof. apply pick_in; [discriminate|]. repeat constructor. Qed.

Lemma num_table_ok n : number_lit (pick num_table [] n).
Proof. apply pick_in; [discriminate|]. repeat (constructor; [apply num_check; reflexivity|]). constructor. Qed.

Lemma str_table_ok n : str_chars (pick str_table [] n).
Proof. apply pick_in; [discriminate|]. repeat (constructor; [apply str_check; reflexivity|]). constructor. Qed.

Lemma bool_table_ok n : value (pick bool_table [] n) JBool.
Proof. apply pick_in; [discriminate|]. constructor; [apply v_true|]. constructor; [apply v_false|]. constructor. Qed.

Lemma r_ws_ok ch : ws (fst (r_ws ch)).
Proof. unfold r_ws. destruct (next_choice ch) as [n ch']. cbn [fst]. apply ws_table_ok. Qed.

(* the two inner loops of [jrender], named *)
Fixpoint rels (l : list json) (first : bool) (ch : list nat) : list char * list nat :=
  match l with
  | [] => ([], ch)
  | e :: r =>
      let '(w1, ch) := r_ws ch in
      let '(t, ch) := jrender ch e in
      let '(w2, ch) := r_ws ch in
      let '(rest, ch) := rels r false ch in
      ((if first then [] else [44%N]) ++ w1 ++ t ++ w2 ++ rest, ch)
  end.

Fixpoint rmems (m : list (key * json)) (first : bool) (ch : list nat) : list char * list nat :=
  match m with
  | [] => ([], ch)
  | (k, v) :: r =>
      let '(w1, ch) := r_ws ch in
      let '(w2, ch) := r_ws ch in
      let '(w3, ch) := r_ws ch in
      let '(t, ch) := jrender ch v in
      let '(w4, ch) := r_ws ch in
      let '(rest, ch) := rmems r false ch in
      ((if first then [] else [44%N]) ++ w1 ++ 34%N :: key_chars k ++ 34%N :: w2 ++ 58%N :: w3 ++ t ++ w4 ++ rest, ch)
  end.

Lemma jrender_arr ch l : jrender ch (JArr l) =
  let '(w0, ch) := r_ws ch in let '(body, ch) := rels l true ch in (91%N :: w0 ++ body ++ [93%N], ch).
Proof. reflexivity. Qed.

Lemma jrender_obj ch m : jrender ch (JObj m) =
  let '(w0, ch) := r_ws ch in let '(body, ch) := rmems m true ch in (123%N :: w0 ++ body ++ [125%N], ch).
Proof. reflexivity. Qed.

Lemma rels_ok : forall l, Forall (fun d => keys_ok d -> forall ch, value (fst (jrender ch d)) d) l ->
  keys_ok (JArr l) -> l <> [] -> forall first ch,
  exists s, fst (rels l first ch) = (if first then [] else [44%N]) ++ s /\ elements s l.
Proof.
  induction l as [|e r IH]; intros Hf Hk Hne first ch; [contradiction|].
  inversion Hf as [|? ? He Hr]; subst. cbn [keys_ok] in Hk. destruct Hk as [Hke Hkr].
  cbn [rels]. pose proof (r_ws_ok ch) as W1. destruct (r_ws ch) as [w1 ch1]. cbn [fst] in W1.
  pose proof (He Hke ch1) as Hv. destruct (jrender ch1 e) as [t ch2]. cbn [fst] in Hv.
  pose proof (r_ws_ok ch2) as W2. destruct (r_ws ch2) as [w2 ch3]. cbn [fst] in W2.
  destruct r as [|e' r'].
  - cbn [rels fst]. exists (w1 ++ t ++ w2). split; [rewrite app_nil_r; reflexivity|].
    apply el_one; assumption.
  - destruct (IH Hr Hkr ltac:(discriminate) false ch3) as [s [Es Hs]].
    destruct (rels (e' :: r') false ch3) as [rest ch4]. cbn [fst] in Es |- *. subst rest.
    exists (w1 ++ t ++ w2 ++ 44%N :: s). split; [reflexivity|]. apply el_cons; assumption.
Qed.

Lemma rmems_ok : forall m, Forall (fun kv => keys_ok (snd kv) -> forall ch, value (fst (jrender ch (snd kv))) (snd kv)) m ->
  keys_ok (JObj m) -> m <> [] -> forall first ch,
  exists s, fst (rmems m first ch) = (if first then [] else [44%N]) ++ s /\ members s m.
Proof.
  induction m as [|[k v] r IH]; intros Hf Hk Hne first ch; [contradiction|].
  inversion Hf as [|? ? He Hr]; subst. cbn [keys_ok] in Hk. destruct Hk as [[Hkb Hkk] [Hke Hkr]]. cbn [snd] in He.
  cbn [rmems]. pose proof (r_ws_ok ch) as W1. destruct (r_ws ch) as [w1 ch1]. cbn [fst] in W1.
  pose proof (r_ws_ok ch1) as W2. destruct (r_ws ch1) as [w2 ch2]. cbn [fst] in W2.
  pose proof (r_ws_ok ch2) as W3. destruct (r_ws ch2) as [w3 ch3]. cbn [fst] in W3.
  pose proof (He Hke ch3) as Hv. destruct (jrender ch3 v) as [t ch4]. cbn [fst] in Hv.
  pose proof (r_ws_ok ch4) as W4. destruct (r_ws ch4) as [w4 ch5]. cbn [fst] in W4.
  assert (Hs : string_lit (34%N :: key_chars k ++ [34%N]) (key_chars k)) by (constructor; exact Hkb).
  destruct r as [|kv' r'].
  - cbn [rmems fst]. exists (w1 ++ (34%N :: key_chars k ++ [34%N]) ++ w2 ++ 58%N :: w3 ++ t ++ w4).
    split; [rewrite app_nil_r; cbn [app]; rewrite <- !app_assoc; reflexivity|].
    rewrite <- Hkk at 2. apply mb_one; assumption.
  - destruct (IH Hr Hkr ltac:(discriminate) false ch5) as [s [Es Hs']].
    destruct (rmems (kv' :: r') false ch5) as [rest ch6]. cbn [fst] in Es |- *. subst rest.
    exists (w1 ++ (34%N :: key_chars k ++ [34%N]) ++ w2 ++ 58%N :: w3 ++ t ++ w4 ++ 44%N :: s).
    split; [cbn [app]; rewrite <- !app_assoc; reflexivity|].
    rewrite <- Hkk at 2. apply mb_cons; assumption.
Qed.

Lemma jrender_value : forall d, keys_ok d -> forall ch, value (fst (jrender ch d)) d.
Proof.
  induction d as [| | | |l IH|m IH] using json_ind'; intros Hk ch.
  - apply v_null.
  - cbn [jrender]. destruct (next_choice ch) as [n ch']. apply bool_table_ok.
  - cbn [jrender]. destruct (next_choice ch) as [n ch']. apply v_number. apply num_table_ok.
  - cbn [jrender]. destruct (next_choice ch) as [n ch']. cbn [fst].
    apply (v_string _ (pick str_table [] n)). constructor. apply str_table_ok.
  - rewrite jrender_arr. pose proof (r_ws_ok ch) as W0. destruct (r_ws ch) as [w0 ch1]. cbn [fst] in W0.
    destruct l as [|e r].
    + cbn [rels fst app]. apply v_array_empty. exact W0.
    + destruct (rels_ok (e :: r) IH Hk ltac:(discriminate) true ch1) as [s [Es Hs]].
      destruct (rels (e :: r) true ch1) as [body ch2]. cbn [fst app] in Es |- *. subst body.
      rewrite app_assoc. apply v_array. apply elements_ws; assumption.
  - rewrite jrender_obj. pose proof (r_ws_ok ch) as W0. destruct (r_ws ch) as [w0 ch1]. cbn [fst] in W0.
    destruct m as [|kv r].
    + cbn [rmems fst app]. apply v_object_empty. exact W0.
    + destruct (rmems_ok (kv :: r) IH Hk ltac:(discriminate) true ch1) as [s [Es Hs]].
      destruct (rmems (kv :: r) true ch1) as [body ch2]. cbn [fst app] in Es |- *. subst body.
      rewrite app_assoc. apply v_object. apply members_ws; assumption.
Qed.

Theorem render_grammatical ch d : keys_ok d -> json_text (render_text ch d) d.
Proof.
  intros Hk. unfold render_text.
  pose proof (r_ws_ok ch) as W1. destruct (r_ws ch) as [w1 ch1]. cbn [fst] in W1.
  pose proof (jrender_value d Hk ch1) as Hv. destruct (jrender ch1 d) as [t ch2]. cbn [fst] in Hv.
  pose proof (r_ws_ok ch2) as W2. destruct (r_ws ch2) as [w2 ch3]. cbn [fst] in W2.
  apply jt_intro; assumption.
Qed.

(* ---------- parse_render ---------- *)
Theorem parse_render cf ch d : f3_cr_newline cf = true -> keys_ok d -> jdepth d <= 256 ->
  from_str_m cf (render_text ch d) = lift_infer (infer_text d).
Proof.
  intros F3 Hk Hd. apply from_str_complete; [exact F3|apply render_grammatical; exact Hk|exact Hd].
Qed.

(* C07, text level: the result does not depend on the rendering choices *)
Theorem render_choice_irrelevant cf ch ch' d : f3_cr_newline cf = true -> keys_ok d -> jdepth d <= 256 ->
  from_str_m cf (render_text ch d) = from_str_m cf (render_text ch' d).
Proof. intros F3 Hk Hd. rewrite !parse_render by assumption. reflexivity. Qed.

(* ---------- the code as it is ([cfg_now]) ---------- *)
Lemma cfg_now_f3 : f3_cr_newline cfg_now = true.
Proof. reflexivity. Qed.

Theorem lex_complete_now s d : json_text s d -> jdepth d <= 256 ->
  exists t, jfile s d t /\ lex cfg_now s = {| l_toks := ctoks t; l_diags := []; l_status := LDone |}.
Proof. apply lex_complete. exact cfg_now_f3. Qed.

Theorem from_str_complete_now s d : json_text s d -> jdepth d <= 256 ->
  from_str_m cfg_now s = lift_infer (infer_text d).
Proof. apply from_str_complete. exact cfg_now_f3. Qed.

Theorem grammatical_accepted_now s :
  (exists d, json_text s d /\ jdepth d <= 256 /\ dup_consistent d = true) -> accepts cfg_now s = true.
Proof. apply grammatical_accepted. exact cfg_now_f3. Qed.

Theorem same_tree_same_result_now s s' d : json_text s d -> json_text s' d -> jdepth d <= 256 ->
  from_str_m cfg_now s = from_str_m cfg_now s'.
Proof. apply same_tree_same_result. exact cfg_now_f3. Qed.

Theorem parse_render_now ch d : keys_ok d -> jdepth d <= 256 ->
  from_str_m cfg_now (render_text ch d) = lift_infer (infer_text d).
Proof. apply parse_render. exact cfg_now_f3. Qed.

Theorem render_choice_irrelevant_now ch ch' d : keys_ok d -> jdepth d <= 256 ->
  from_str_m cfg_now (render_text ch d) = from_str_m cfg_now (render_text ch' d).
Proof. apply render_choice_irrelevant. exact cfg_now_f3. Qed.

(* the other text entry points *)
Theorem superset_checked_complete_now sh s d : json_text s d -> jdepth d <= 256 ->
  is_superset_checked_m cfg_now sh s
  = obind (lift_infer (infer_text d)) (fun sd => Ok (Subset.is_subset sd sh)).
Proof. intros Hj Hd. unfold is_superset_checked_m. rewrite (from_str_complete_now s d Hj Hd). reflexivity. Qed.

(* lifting a tree-level theorem to texts: member order (C07) *)
Theorem text_member_order_now s s' m m' sh : json_text s (JObj m) -> json_text s' (JObj m') ->
  Permutation m m' -> NoDup (map fst m) -> jdepth (JObj m) <= 256 -> jdepth (JObj m') <= 256 ->
  from_str_m cfg_now s = Ok sh -> from_str_m cfg_now s' = Ok sh.
Proof.
  intros H H' Hp Hn Hd Hd' E. rewrite (from_str_complete_now s _ H Hd) in E.
  rewrite (from_str_complete_now s' _ H' Hd').
  destruct (infer_text (JObj m)) as [x|[a b]|] eqn:Ei; try discriminate E. cbn in E. inversion E; subst x.
  rewrite (infer_perm m m' Hp Hn sh Ei). reflexivity.
Qed.

(* lifting C01 (soundness of inference) and C06 (text path = value path) to texts *)
Theorem text_infer_sound_now s d sh : json_text s d -> jdepth d <= 256 -> conflict_free d = true ->
  from_str_m cfg_now s = Ok sh -> Sem.mem d sh = true.
Proof.
  intros Hj Hd Hc E. rewrite (from_str_complete_now s d Hj Hd) in E.
  destruct (infer_text d) as [x|[a b]|] eqn:Ei; try discriminate E. cbn in E. inversion E; subst x.
  exact (infer_sound d Hc sh Ei).
Qed.

Theorem text_paths_agree_now s d : json_text s d -> jdepth d <= 256 -> nodup_keys d = true ->
  from_str_m cfg_now s = lift_infer (infer_value d).
Proof.
  intros Hj Hd Hn. rewrite (from_str_complete_now s d Hj Hd), (paths_agree d Hn). reflexivity.
Qed.

(* ---------- the text entry points ARE the tree-level entry points of Model/Api.v ----------
   (on grammatical texts of depth <= 256): every tree-level API theorem (C01 sources, C02 / C03
   superset, C08, C09) transfers to texts through these three equations *)
Definition lift_api (x : outcome Api.aerr shape) : tout shape :=
  match x with
  | Ok s => Ok s
  | Err (Api.AInfer (DupConflict a b)) => Err (EDupConflict a b)
  | Err (Api.AMerge Merger.EmptyFile) => Err EEmptyFile
  | Err (Api.AMerge Merger.CannotMerge) => Err EUnknown
  | Panic => Panic
  end.

Definition text_of (s : list char) (d : json) : Prop := json_text s d /\ jdepth d <= 256.

Lemma mapM_from_str_complete cf : f3_cr_newline cf = true -> forall srcs ds, Forall2 text_of srcs ds ->
  mapM_o (from_str_m cf) srcs = WalkComplete.lift_o (mapM_o infer_text ds).
Proof.
  intros F3. induction 1 as [|s d srcs ds [Hj Hd] _ IH]; [reflexivity|].
  cbn [mapM_o]. rewrite (from_str_complete cf s d F3 Hj Hd), IH, WalkComplete.lift_infer_o.
  destruct (infer_text d) as [x|[a b]|]; cbn; try reflexivity.
  destruct (mapM_o infer_text ds) as [xs|[a b]|]; reflexivity.
Qed.

Theorem from_sources_complete cf srcs ds : f3_cr_newline cf = true -> Forall2 text_of srcs ds ->
  from_sources_m cf srcs = lift_api (Api.from_sources_tree ds).
Proof.
  intros F3 H. unfold from_sources_m, Api.from_sources_tree. rewrite (mapM_from_str_complete cf F3 srcs ds H).
  destruct (mapM_o infer_text ds) as [ss|[a b]|]; cbn; try reflexivity.
  destruct (Merger.merge ss) as [x|[|]|]; reflexivity.
Qed.

Theorem is_superset_complete cf sh s d : f3_cr_newline cf = true -> text_of s d ->
  is_superset_m cf sh s = Ok (Api.is_superset_tree sh d).
Proof.
  intros F3 [Hj Hd]. unfold is_superset_m, Api.is_superset_tree. rewrite (from_str_complete cf s d F3 Hj Hd).
  destruct (infer_text d) as [x|[a b]|] eqn:E; cbn; try reflexivity.
  exfalso. exact (infer_text_no_panic d E).
Qed.

Theorem is_superset_checked_complete cf sh s d : f3_cr_newline cf = true -> text_of s d ->
  is_superset_checked_m cf sh s = WalkComplete.lift_o (Api.is_superset_checked_tree sh d).
Proof.
  intros F3 [Hj Hd]. unfold is_superset_checked_m, Api.is_superset_checked_tree.
  rewrite (from_str_complete cf s d F3 Hj Hd). destruct (infer_text d) as [x|[a b]|]; reflexivity.
Qed.

Theorem from_sources_complete_now srcs ds : Forall2 text_of srcs ds ->
  from_sources_m cfg_now srcs = lift_api (Api.from_sources_tree ds).
Proof. apply from_sources_complete. exact cfg_now_f3. Qed.

Theorem is_superset_complete_now sh s d : text_of s d -> is_superset_m cfg_now sh s = Ok (Api.is_superset_tree sh d).
Proof. apply is_superset_complete. exact cfg_now_f3. Qed.

Theorem is_superset_checked_complete_now sh s d : text_of s d ->
  is_superset_checked_m cfg_now sh s = WalkComplete.lift_o (Api.is_superset_checked_tree sh d).
Proof. apply is_superset_checked_complete. exact cfg_now_f3. Qed.
