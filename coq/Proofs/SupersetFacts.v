(* SupersetFacts.v — C03: what is proved about "a shape accepts the samples it was inferred from". *)
From Coq Require Import List Bool NArith Lia.
Import ListNotations.
From JS Require Import Model.Base Model.Shape Model.Sem Model.Subset Model.Merger Model.Infer Model.Api
  Proofs.BaseFacts Proofs.ShapeFacts Proofs.SubsetFacts Proofs.InferFacts.

Theorem single_superset d s : infer_text d = Ok s -> is_superset_tree s d = true.
Proof.
  intro H. unfold is_superset_tree. rewrite H. apply subset_refl. eapply infer_text_wf. exact H.
Qed.

Theorem single_superset_checked d s : infer_text d = Ok s -> is_superset_checked_tree s d = Ok true.
Proof.
  intro H. unfold is_superset_checked_tree. rewrite H. simpl. rewrite subset_refl; [reflexivity|].
  eapply infer_text_wf. exact H.
Qed.

Theorem single_source_superset d s : from_sources_tree [d] = Ok s ->
  is_superset_tree s d = true /\ is_superset_checked_tree s d = Ok true.
Proof.
  unfold from_sources_tree. simpl. destruct (infer_text d) as [sd| |] eqn:E; simpl; try discriminate.
  intro H. inversion H. subst. split; [apply single_superset|apply single_superset_checked]; exact E.
Qed.
