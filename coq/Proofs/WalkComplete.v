(* WalkComplete.v — the CST walk (Model/Walk.v) on the node vector of a CST tree of a document
   ([jfile src d t], Proofs/CstTree.v) returns exactly the tree-level inference
   [lift_infer (infer_text d)]: same shape, or the same duplicate-conflict error. *)
From Coq Require Import List Bool Arith NArith Lia.
Import ListNotations.
From JS Require Import Model.Base Model.Shape Model.Sem Model.Infer Model.Lexer Model.Parser Model.Walk
  Proofs.TextFacts Proofs.InferFacts Proofs.TextWalk Proofs.CstTree.

(* ---------- positions of a tree / forest inside the flat CST ---------- *)
Definition locateds (c : cst) (i b : nat) (ks : list ct) : Prop :=
  exists pre post tpre tpost,
    c_nodes c = pre ++ cflats b ks ++ post /\ length pre = i /\
    c_spans c = tpre ++ map snd (cstoks ks) ++ tpost /\ length tpre = b.

Definition located (c : cst) (i b : nat) (t : ct) : Prop := locateds c i b [t].

Definition hd_node (b : nat) (k : ct) : node :=
  match k with CT t _ => NTok t b | CR r ks => NRule r (fsize ks) end.

Lemma cflat_hd b k : exists r, cflat b k = hd_node b k :: r.
Proof. destruct k as [t sp|r ks]; [exists []; reflexivity|]. rewrite cflat_CR. eexists. reflexivity. Qed.

Lemma nth_error_mid {A} (pre x post : list A) j n : nth_error x j = Some n ->
  nth_error (pre ++ x ++ post) (length pre + j) = Some n.
Proof.
  intros H. rewrite nth_error_app2 by lia. replace (length pre + j - length pre) with j by lia.
  rewrite nth_error_app1; [exact H|]. apply nth_error_Some. congruence.
Qed.

Lemma locateds_cons c i b k ks : locateds c i b (k :: ks) ->
  located c i b k /\ locateds c (i + csize k) (b + length (ctoks k)) ks.
Proof.
  intros [pre [post [tpre [tpost [Hn [Hi [Hs Hb]]]]]]]. cbn [cflats] in Hn. rewrite cstoks_cons, map_app in Hs.
  split.
  - exists pre, (cflats (b + length (ctoks k)) ks ++ post), tpre, (map snd (cstoks ks) ++ tpost).
    cbn [cflats cstoks flat_map]. rewrite !app_nil_r. rewrite Hn, Hs, <- !app_assoc. repeat split; assumption.
  - exists (pre ++ cflat b k), post, (tpre ++ map snd (ctoks k)), tpost.
    rewrite Hn, Hs, <- !app_assoc, !app_length, cflat_length, map_length. repeat split; lia.
Qed.

Lemma locateds_app c : forall a i b ks, locateds c i b (a ++ ks) ->
  locateds c i b a /\ locateds c (i + fsize a) (b + length (cstoks a)) ks.
Proof.
  intros a i b ks [pre [post [tpre [tpost [Hn [Hi [Hs Hb]]]]]]].
  rewrite cflats_app in Hn. rewrite cstoks_app, map_app in Hs. split.
  - exists pre, (cflats (b + length (cstoks a)) ks ++ post), tpre, (map snd (cstoks ks) ++ tpost).
    rewrite Hn, Hs, <- !app_assoc. repeat split; assumption.
  - exists (pre ++ cflats b a), post, (tpre ++ map snd (cstoks a)), tpost.
    rewrite Hn, Hs, <- !app_assoc, !app_length, cflats_length, map_length. repeat split; lia.
Qed.

Lemma located_hd c i b k : located c i b k -> nth_error (c_nodes c) i = Some (hd_node b k).
Proof.
  intros [pre [post [tpre [tpost [Hn [Hi _]]]]]]. cbn [cflats] in Hn. rewrite app_nil_r in Hn.
  destruct (cflat_hd b k) as [r E]. rewrite Hn, E, <- Hi.
  replace (length pre) with (length pre + 0) by lia. apply nth_error_mid. reflexivity.
Qed.

Lemma located_tok c i b t sp : located c i b (CT t sp) ->
  nth_error (c_nodes c) i = Some (NTok t b) /\ nth_error (c_spans c) b = Some sp.
Proof.
  intros H. split; [apply (located_hd c i b (CT t sp) H)|].
  destruct H as [pre [post [tpre [tpost [_ [_ [Hs Hb]]]]]]]. cbn in Hs. rewrite Hs, <- Hb.
  rewrite nth_error_app2 by lia. rewrite Nat.sub_diag. reflexivity.
Qed.

Lemma skipn_S_app {A} (pre : list A) x rest : skipn (S (length pre)) (pre ++ x :: rest) = rest.
Proof. induction pre as [|y pre IH]; [reflexivity|]. cbn [length app]. rewrite skipn_cons. exact IH. Qed.

Lemma located_rule c i b r ks : located c i b (CR r ks) ->
  nth_error (c_nodes c) i = Some (NRule r (fsize ks)) /\
  inner c i (fsize ks) = Some (cflats b ks) /\ locateds c (S i) b ks.
Proof.
  intros H. split; [apply (located_hd c i b (CR r ks) H)|].
  destruct H as [pre [post [tpre [tpost [Hn [Hi [Hs Hb]]]]]]].
  cbn [cflats] in Hn. rewrite app_nil_r, cflat_CR in Hn. cbn [cstoks flat_map] in Hs. rewrite app_nil_r in Hs.
  split.
  - unfold inner. rewrite Hn, <- Hi. cbn [app]. rewrite skipn_S_app.
    assert (F : firstn (fsize ks) (cflats b ks ++ post) = cflats b ks).
    { rewrite <- (cflats_length ks b). rewrite firstn_app, Nat.sub_diag, firstn_all. cbn [firstn]. apply app_nil_r. }
    rewrite F, cflats_length, Nat.eqb_refl. reflexivity.
  - exists (pre ++ [NRule r (fsize ks)]), post, tpre, tpost. rewrite Hn, Hs, <- app_assoc, app_length.
    cbn [app length ctoks]. repeat split; try assumption; lia.
Qed.

(* ---------- children ---------- *)
Fixpoint tops (i b : nat) (ks : list ct) : list (nat * node) :=
  match ks with
  | [] => []
  | k :: r => (i, hd_node b k) :: tops (i + csize k) (b + length (ctoks k)) r
  end.

Lemma tops_app : forall a i b z, tops i b (a ++ z) = tops i b a ++ tops (i + fsize a) (b + length (cstoks a)) z.
Proof.
  induction a as [|k a IH]; intros i b z.
  - cbn. rewrite !Nat.add_0_r. reflexivity.
  - cbn [app tops]. rewrite IH, fsize_cons, cstoks_cons, app_length. cbn [app]. do 3 f_equal; lia.
Qed.

Lemma kids_skip : forall l rest o, kids (l ++ rest) o (length l) = kids rest (o + length l) 0.
Proof.
  induction l as [|n l IH]; intros rest o.
  - cbn. rewrite Nat.add_0_r. reflexivity.
  - cbn [app length kids]. rewrite IH. f_equal. lia.
Qed.

Lemma kids_tree b k rest o : kids (cflat b k ++ rest) o 0 = o :: kids rest (o + csize k) 0.
Proof.
  destruct k as [t sp|r ks].
  - cbn. f_equal. f_equal. lia.
  - rewrite cflat_CR. cbn [app kids csize]. fold (fsize ks). f_equal.
    rewrite <- (cflats_length ks b) at 1. rewrite kids_skip, cflats_length. f_equal. lia.
Qed.

Lemma kids_forest : forall ks b rest o,
  kids (cflats b ks ++ rest) o 0 = map fst (tops o b ks) ++ kids rest (o + fsize ks) 0.
Proof.
  induction ks as [|k ks IH]; intros b rest o.
  - cbn. rewrite Nat.add_0_r. reflexivity.
  - cbn [cflats tops map app]. rewrite <- app_assoc, kids_tree, IH, fsize_cons. do 3 f_equal. lia.
Qed.

Lemma kid_nodes_tops c : forall ks i b, locateds c i b ks ->
  kid_nodes c (map fst (tops i b ks)) = Ok (tops i b ks).
Proof.
  induction ks as [|k ks IH]; intros i b H; [reflexivity|].
  destruct (locateds_cons _ _ _ _ _ H) as [H1 H2]. cbn [tops map fst kid_nodes].
  unfold cst_get. rewrite (located_hd _ _ _ _ H1). cbn [obind]. rewrite (IH _ _ H2). reflexivity.
Qed.

Lemma children_rule c i b r ks : located c i b (CR r ks) ->
  children c i = Ok (map fst (tops (S i) b ks)) /\ kids_of c i = Ok (tops (S i) b ks).
Proof.
  intros H. destruct (located_rule _ _ _ _ _ H) as [Hn [Hin Hl]].
  assert (E : children c i = Ok (map fst (tops (S i) b ks))).
  { unfold children. rewrite Hn, Hin. rewrite <- (app_nil_r (cflats b ks)), kids_forest. cbn [kids].
    rewrite app_nil_r. reflexivity. }
  split; [exact E|]. unfold kids_of. rewrite E. cbn [obind]. apply kid_nodes_tops. exact Hl.
Qed.

(* ---------- heads of document forests ---------- *)
Definition okhead (k : ct) : Prop := is_error_node (hd_node 0 k) = false.

Lemma okhead_any k b : okhead k -> is_error_node (hd_node b k) = false.
Proof. destruct k; exact (fun H => H). Qed.

Lemma find_kid_tops_none p : forall ks i b, Forall (fun k => forall b, p (hd_node b k) = false) ks ->
  find_kid p (tops i b ks) = None.
Proof.
  unfold find_kid. induction ks as [|k ks IH]; intros i b H; [reflexivity|].
  inversion H; subst. cbn [tops find snd]. rewrite H2. apply IH. exact H3.
Qed.

Lemma filter_tops_none p : forall ks i b, Forall (fun k => forall b, p (hd_node b k) = false) ks ->
  filter (fun x => p (snd x)) (tops i b ks) = [].
Proof.
  induction ks as [|k ks IH]; intros i b H; [reflexivity|].
  inversion H; subst. cbn [tops filter snd]. rewrite H2. apply IH. exact H3.
Qed.

Lemma wsf_heads (p : node -> bool) w :
  (forall b, p (NTok TWhitespace b) = false) -> (forall b, p (NTok TNewline b) = false) ->
  wsf w -> Forall (fun k => forall b, p (hd_node b k) = false) w.
Proof.
  intros P1 P2 Hw. induction Hw as [|k w Hk _ IH]; constructor; [|exact IH].
  destruct k as [t sp|r ks]; [|discriminate Hk]. destruct t; try discriminate Hk; assumption.
Qed.

Lemma jv_head_rule src d t : jv src d t ->
  exists r ks, t = CR r ks /\ (r = RLiteral \/ r = RArray \/ r = RObject).
Proof. intros H. destruct H; eexists; eexists; (split; [reflexivity|]); auto. Qed.

(* ---------- tree-level inference, member by member ---------- *)
Definition lift_o {A} (x : outcome ierr A) : tout A :=
  match x with
  | Ok a => Ok a
  | Err (DupConflict a b) => Err (EDupConflict a b)
  | Panic => Panic
  end.

Lemma lift_infer_o x : lift_infer x = lift_o x.
Proof. destruct x as [s|[a b]|]; reflexivity. Qed.

Definition member_step (k : key) (acc : list (key * shape)) (s : shape) : outcome ierr (list (key * shape)) :=
  match map_get k acc with
  | Some (SOneOf vs _) => if sset_mem s vs then Ok acc else Err (DupConflict s (SOneOf vs false))
  | Some other => if shape_eqb s other then Ok acc else Err (DupConflict s other)
  | None => Ok (map_insert k s acc)
  end.

Fixpoint obj_fold (f : json -> outcome ierr shape) (m : list (key * json)) (acc : list (key * shape))
  : outcome ierr (list (key * shape)) :=
  match m with
  | [] => Ok acc
  | (k, v) :: r => obind (obind (f v) (member_step k acc)) (obj_fold f r)
  end.

Lemma obj_loop_fold f : forall m acc,
  obj_loop f m acc = obind (obj_fold f m acc) (fun c => Ok (SObject c false)).
Proof.
  induction m as [|[k v] r IH]; intros acc; [reflexivity|].
  cbn [obj_loop obj_fold]. destruct (f v) as [s| |]; cbn [obind]; try reflexivity.
  unfold member_step. destruct (map_get k acc) as [[| | | | | |vs o|]|]; cbn [obind];
    repeat match goal with |- context [if ?b then _ else _] => destruct b end; cbn [obind]; try apply IH; reflexivity.
Qed.

Section Walk.
  Variable src : list char.
  Variable c : cst.

  Definition noerr (ks : list ct) : Prop := Forall (fun k => forall b, is_error_node (hd_node b k) = false) ks.

  Lemma has_errors_ok i b r ks : located c i b (CR r ks) -> noerr ks -> has_errors c src i = Ok tt.
  Proof.
    intros H Hn. unfold has_errors. destruct (children_rule c i b r ks H) as [_ E]. rewrite E. cbn [obind].
    rewrite (find_kid_tops_none is_error_node ks (S i) b Hn). reflexivity.
  Qed.

  Lemma noerr_ws w : wsf w -> noerr w.
  Proof. intros H. apply (wsf_heads is_error_node w); [reflexivity|reflexivity|exact H]. Qed.

  Lemma noerr_jv d t : jv src d t -> forall b, is_error_node (hd_node b t) = false.
  Proof. intros H b. destruct (jv_head_rule _ _ _ H) as [r [ks [-> [-> |[-> | ->]]]]]; reflexivity. Qed.

  Lemma noerr_app a b : noerr a -> noerr b -> noerr (a ++ b).
  Proof. intros Ha Hb. apply Forall_app. split; assumption. Qed.

  Lemma noerr_jels l ks : jels src l ks -> noerr ks.
  Proof.
    induction 1 as [d v w Hv Hw|d v w sp w' l ks Hv Hw Hw' _ IH].
    - constructor; [apply (noerr_jv d v Hv)|apply noerr_ws; exact Hw].
    - constructor; [apply (noerr_jv d v Hv)|]. apply noerr_app; [apply noerr_ws; exact Hw|].
      constructor; [reflexivity|]. apply noerr_app; [apply noerr_ws; exact Hw'|exact IH].
  Qed.

  Lemma noerr_jmems m ks : jmems src m ks -> noerr ks.
  Proof.
    induction 1 as [k d spk w1 spc w2 v w Hk Hw1 Hw2 Hv Hw|k d spk w1 spc w2 v w sp w' m ks Hk Hw1 Hw2 Hv Hw Hw' _ IH].
    - constructor; [reflexivity|apply noerr_ws; exact Hw].
    - constructor; [reflexivity|]. apply noerr_app; [apply noerr_ws; exact Hw|].
      constructor; [reflexivity|]. apply noerr_app; [apply noerr_ws; exact Hw'|exact IH].
  Qed.

  (* ---------- literals ---------- *)
  Lemma walk_literal i b k fuel : located c i b (CR RLiteral [k]) ->
    (forall b, is_error_node (hd_node b k) = false) -> 1 <= fuel ->
    parse_rule fuel c src i = parse_token c (S i) /\ cst_get c (S i) = Ok (hd_node b k).
  Proof.
    intros H Hk Hf. destruct fuel as [|f]; [lia|]. cbn [parse_rule].
    destruct (located_rule _ _ _ _ _ H) as [Hn [_ Hl]].
    unfold cst_get at 1. rewrite Hn. cbn [obind].
    rewrite (has_errors_ok i b RLiteral [k] H) by (constructor; [exact Hk|constructor]). cbn [obind].
    destruct (children_rule c i b RLiteral [k] H) as [E _]. rewrite E. cbn [tops map fst obind].
    split; [reflexivity|]. destruct (locateds_cons _ _ _ _ _ Hl) as [H1 _].
    unfold cst_get. rewrite (located_hd _ _ _ _ H1). reflexivity.
  Qed.

  Definition PVw (d : json) (t : ct) : Prop :=
    forall i b fuel, located c i b t -> csize t <= fuel -> parse_rule fuel c src i = lift_o (infer_text d).

  Definition PEw (l : list json) (ks : list ct) : Prop :=
    forall i b f, locateds c i b ks -> fsize ks <= f ->
      mapM_o (parse_rule f c src) (map fst (filter (fun x => negb (is_array_punct (snd x))) (tops i b ks)))
      = lift_o (mapM_o infer_text l).

  Definition PMw (m : list (key * json)) (ks : list ct) : Prop :=
    forall i b f acc, locateds c i b ks -> fsize ks <= f ->
      fold_members (parse_member (parse_rule f c src) c src)
        (map fst (filter (fun x => is_member_node (snd x)) (tops i b ks))) acc
      = lift_o (obj_fold infer_text m acc).

  (* the children of a bracketed rule: open, ws, body, close *)
  Lemma bracket_tops i0 b0 t1 sp1 w ks t2 sp2 :
    locateds c i0 b0 (CT t1 sp1 :: w ++ ks ++ [CT t2 sp2]) ->
    exists i' b' i'' b'', locateds c i' b' ks /\
      tops i0 b0 (CT t1 sp1 :: w ++ ks ++ [CT t2 sp2])
      = (i0, NTok t1 b0) :: tops (i0 + 1) (b0 + 1) w ++ tops i' b' ks ++ [(i'', NTok t2 b'')].
  Proof.
    intros H. destruct (locateds_cons _ _ _ _ _ H) as [_ H1]. cbn [csize ctoks length] in H1.
    destruct (locateds_app _ _ _ _ _ H1) as [_ H2]. destruct (locateds_app _ _ _ _ _ H2) as [H3 _].
    eexists. eexists. eexists. eexists. split; [exact H3|].
    cbn [tops hd_node csize ctoks length]. rewrite !tops_app. cbn [tops hd_node]. reflexivity.
  Qed.

  Lemma filter_bracket (p : node -> bool) i0 b0 t1 w i' b' ks i'' b'' t2 :
    (forall b, p (NTok t1 b) = false) -> (forall b, p (NTok t2 b) = false) ->
    (forall b, p (NTok TWhitespace b) = false) -> (forall b, p (NTok TNewline b) = false) -> wsf w ->
    filter (fun x => p (snd x)) ((i0, NTok t1 b0) :: tops (i0 + 1) (b0 + 1) w ++ tops i' b' ks ++ [(i'', NTok t2 b'')])
    = filter (fun x => p (snd x)) (tops i' b' ks).
  Proof.
    intros P1 P2 P3 P4 Hw. cbn [filter snd]. rewrite P1, !filter_app.
    rewrite (filter_tops_none p w _ _ (wsf_heads p w P3 P4 Hw)). cbn [filter snd app]. rewrite P2, app_nil_r.
    reflexivity.
  Qed.
End Walk.

Lemma find_kid_app p a z : find_kid p (a ++ z) =
  match find_kid p a with Some x => Some x | None => find_kid p z end.
Proof.
  unfold find_kid. induction a as [|x a IH]; [reflexivity|]. cbn [app find].
  destruct (p (snd x)); [reflexivity|exact IH].
Qed.

Section Walk2.
  Variable src : list char.
  Variable c : cst.

  Lemma lift_member_step k acc s :
    match map_get k acc with
    | Some (SOneOf vs _) => if sset_mem s vs then Ok acc else Err (EDupConflict s (SOneOf vs false))
    | Some other => if shape_eqb s other then Ok acc else Err (EDupConflict s other)
    | None => Ok (map_insert k s acc)
    end = lift_o (member_step k acc s).
  Proof.
    unfold member_step. destruct (map_get k acc) as [[| | | | | |vs o|]|];
      repeat match goal with |- context [if ?b then _ else _] => destruct b end; reflexivity.
  Qed.

  Lemma walk_member i b spk w1 spc w2 v k d (pr : nat -> tout shape) acc :
    located c i b (member_ct spk w1 spc w2 v) -> key_at src spk k -> wsf w1 -> wsf w2 -> jv src d v ->
    (forall iv bv, located c iv bv v -> pr iv = lift_o (infer_text d)) ->
    parse_member pr c src i acc = lift_o (obind (infer_text d) (member_step k acc)).
  Proof.
    intros H Hk Hw1 Hw2 Hv Hpr. unfold member_ct in H.
    destruct (children_rule c i b RMember _ H) as [_ Ekn].
    destruct (located_rule _ _ _ _ _ H) as [_ [_ Hl]].
    destruct (locateds_cons _ _ _ _ _ Hl) as [Hkey Hl1]. cbn [csize ctoks length] in Hl1.
    destruct (locateds_app _ _ _ _ _ Hl1) as [_ Hl2].
    destruct (locateds_cons _ _ _ _ _ Hl2) as [_ Hl3]. cbn [csize ctoks length] in Hl3.
    destruct (locateds_app _ _ _ _ _ Hl3) as [_ Hl4].
    destruct (located_tok _ _ _ _ _ Hkey) as [Nk Sk].
    unfold parse_member. rewrite Ekn. cbn [obind].
    cbn [tops hd_node]. unfold find_kid at 1. cbn [find snd is_string_tok fst].
    unfold cst_span. rewrite Nk. unfold span_at. rewrite Sk. cbn [obind].
    destruct Hk as [body [-> Hf]]. unfold JsonRef.raw_key. destruct (faithful_inner _ _ _ Hf) as [Hnz Hin].
    apply N.eqb_neq in Hnz. rewrite Hnz. rewrite (slice_src_complete _ _ _ Hin).
    rewrite (has_errors_ok src c i b RMember _ H).
    2:{ constructor; [reflexivity|]. apply noerr_app; [apply noerr_ws; exact Hw1|].
        constructor; [reflexivity|]. apply noerr_app; [apply noerr_ws; exact Hw2|].
        constructor; [apply (noerr_jv src d v Hv)|constructor]. }
    cbn [obind].
    (* the value child *)
    assert (Ev : find_kid is_value_rule
                   ((S i, NTok TString b) :: tops (S i + 1) (b + 1) (w1 ++ CT TColon spc :: w2 ++ [v]))
                 = Some (S i + 1 + fsize w1 + 1 + fsize w2)).
    { unfold find_kid at 1. cbn [find snd is_value_rule]. fold (find_kid is_value_rule (tops (S i + 1) (b + 1) (w1 ++ CT TColon spc :: w2 ++ [v]))).
      rewrite tops_app, find_kid_app.
      rewrite (find_kid_tops_none is_value_rule w1 _ _ (wsf_heads is_value_rule w1 (fun _ => eq_refl) (fun _ => eq_refl) Hw1)).
      cbn [tops hd_node]. unfold find_kid at 1. cbn [find snd is_value_rule].
      fold (find_kid is_value_rule (tops (S i + 1 + fsize w1 + csize (CT TColon spc)) (b + 1 + length (cstoks w1) + length (ctoks (CT TColon spc))) (w2 ++ [v]))).
      rewrite tops_app, find_kid_app.
      rewrite (find_kid_tops_none is_value_rule w2 _ _ (wsf_heads is_value_rule w2 (fun _ => eq_refl) (fun _ => eq_refl) Hw2)).
      cbn [tops]. unfold find_kid. cbn [find snd fst].
      destruct (jv_head_rule _ _ _ Hv) as [r [ks [-> [-> |[-> | ->]]]]]; cbn [hd_node is_value_rule csize]; f_equal. }
    cbn [csize ctoks length]. rewrite Ev.
    destruct (locateds_cons _ _ _ _ _ Hl4) as [Hlv _].
    rewrite (Hpr _ _ Hlv).
    destruct (infer_text d) as [s|[a e]|]; cbn [lift_o obind]; try reflexivity.
    apply lift_member_step.
  Qed.
End Walk2.

Section Walk3.
  Variable src : list char.
  Variable c : cst.

  Notation nonpunct := (fun x : nat * node => negb (is_array_punct (snd x))).
  Notation ismember := (fun x : nat * node => is_member_node (snd x)).

  Lemma jv_nonpunct d v b : jv src d v -> negb (is_array_punct (hd_node b v)) = true.
  Proof. intros H. destruct (jv_head_rule _ _ _ H) as [r [ks [-> [-> |[-> | ->]]]]]; reflexivity. Qed.

  Lemma jv_nonmember d v b : jv src d v -> is_member_node (hd_node b v) = false.
  Proof. intros H. destruct (jv_head_rule _ _ _ H) as [r [ks [-> [-> |[-> | ->]]]]]; reflexivity. Qed.

  Lemma ws_punct w : wsf w -> Forall (fun k => forall b, negb (is_array_punct (hd_node b k)) = false) w.
  Proof. intros H. apply (wsf_heads (fun n => negb (is_array_punct n)) w); [reflexivity|reflexivity|exact H]. Qed.

  Lemma ws_nonmember w : wsf w -> Forall (fun k => forall b, is_member_node (hd_node b k) = false) w.
  Proof. intros H. apply (wsf_heads is_member_node w); [reflexivity|reflexivity|exact H]. Qed.

  Lemma walk_all :
    (forall d t, jv src d t -> PVw src c d t) /\ (forall l ks, jels src l ks -> PEw src c l ks)
    /\ (forall m ks, jmems src m ks -> PMw src c m ks).
  Proof.
    apply jv_mutind.
    - (* null *) intros sp i b fuel H Hf. cbn [csize map list_sum] in Hf.
      destruct (walk_literal src c i b (CT TNull sp) fuel H) as [E G]; [reflexivity|lia|].
      rewrite E. unfold parse_token. rewrite G. reflexivity.
    - intros sp i b fuel H Hf. cbn [csize map list_sum] in Hf.
      destruct (walk_literal src c i b (CR RBoolean [CT TTrue sp]) fuel H) as [E G]; [reflexivity|lia|].
      rewrite E. unfold parse_token. rewrite G. reflexivity.
    - intros sp i b fuel H Hf. cbn [csize map list_sum] in Hf.
      destruct (walk_literal src c i b (CR RBoolean [CT TFalse sp]) fuel H) as [E G]; [reflexivity|lia|].
      rewrite E. unfold parse_token. rewrite G. reflexivity.
    - intros sp i b fuel H Hf. cbn [csize map list_sum] in Hf.
      destruct (walk_literal src c i b (CT TNumber sp) fuel H) as [E G]; [reflexivity|lia|].
      rewrite E. unfold parse_token. rewrite G. reflexivity.
    - intros sp i b fuel H Hf. cbn [csize map list_sum] in Hf.
      destruct (walk_literal src c i b (CT TString sp) fuel H) as [E G]; [reflexivity|lia|].
      rewrite E. unfold parse_token. rewrite G. reflexivity.
    - (* [ ] *)
      intros sp1 w sp2 Hw i b fuel H Hf. destruct fuel as [|f]; [cbn in Hf; lia|]. cbn [parse_rule].
      destruct (located_rule _ _ _ _ _ H) as [Hn [_ Hl]]. unfold cst_get. rewrite Hn. cbn [obind].
      rewrite (has_errors_ok src c i b RArray _ H).
      2:{ constructor; [reflexivity|]. apply noerr_app; [apply noerr_ws; exact Hw|]. constructor; [reflexivity|constructor]. }
      cbn [obind]. destruct (children_rule c i b RArray _ H) as [_ Ekn]. rewrite Ekn. cbn [obind].
      change (CT TLBrak sp1 :: w ++ [CT TRBrak sp2]) with (CT TLBrak sp1 :: w ++ [] ++ [CT TRBrak sp2]) in Hl |- *.
      destruct (bracket_tops c _ _ _ _ _ _ _ _ Hl) as [i' [b' [i'' [b'' [_ Et]]]]]. rewrite Et.
      rewrite (filter_bracket (fun n => negb (is_array_punct n))) by (reflexivity || exact Hw).
      reflexivity.
    - (* [ elements ] *)
      intros sp1 w l ks sp2 Hw Hks IH i b fuel H Hf. destruct fuel as [|f]; [cbn in Hf; lia|]. cbn [parse_rule].
      destruct (located_rule _ _ _ _ _ H) as [Hn [_ Hl]]. unfold cst_get. rewrite Hn. cbn [obind].
      rewrite (has_errors_ok src c i b RArray _ H).
      2:{ constructor; [reflexivity|]. apply noerr_app; [apply noerr_ws; exact Hw|].
          apply noerr_app; [apply (noerr_jels src l ks Hks)|constructor; [reflexivity|constructor]]. }
      cbn [obind]. destruct (children_rule c i b RArray _ H) as [_ Ekn]. rewrite Ekn. cbn [obind].
      destruct (bracket_tops c _ _ _ _ _ _ _ _ Hl) as [i' [b' [i'' [b'' [Hl' Et]]]]]. rewrite Et.
      rewrite (filter_bracket (fun n => negb (is_array_punct n))) by (reflexivity || exact Hw).
      rewrite (IH i' b' f Hl').
      2:{ cbn [csize] in Hf. fold (fsize (CT TLBrak sp1 :: w ++ ks ++ [CT TRBrak sp2])) in Hf.
          rewrite fsize_cons, !fsize_app in Hf. lia. }
      rewrite infer_text_arr. destruct (mapM_o infer_text l) as [es|[a e]|]; cbn [lift_o obind]; try reflexivity;
        apply lift_infer_o.
    - (* { } *)
      intros sp1 w sp2 Hw i b fuel H Hf. destruct fuel as [|f]; [cbn in Hf; lia|]. cbn [parse_rule].
      destruct (located_rule _ _ _ _ _ H) as [Hn [_ Hl]]. unfold cst_get. rewrite Hn. cbn [obind].
      rewrite (has_errors_ok src c i b RObject _ H).
      2:{ constructor; [reflexivity|]. apply noerr_app; [apply noerr_ws; exact Hw|]. constructor; [reflexivity|constructor]. }
      cbn [obind]. destruct (children_rule c i b RObject _ H) as [_ Ekn]. rewrite Ekn. cbn [obind].
      change (CT TLBrace sp1 :: w ++ [CT TRBrace sp2]) with (CT TLBrace sp1 :: w ++ [] ++ [CT TRBrace sp2]) in Hl |- *.
      destruct (bracket_tops c _ _ _ _ _ _ _ _ Hl) as [i' [b' [i'' [b'' [_ Et]]]]]. rewrite Et.
      rewrite (filter_bracket is_member_node) by (reflexivity || exact Hw).
      reflexivity.
    - (* { members } *)
      intros sp1 w m ks sp2 Hw Hks IH i b fuel H Hf. destruct fuel as [|f]; [cbn in Hf; lia|]. cbn [parse_rule].
      destruct (located_rule _ _ _ _ _ H) as [Hn [_ Hl]]. unfold cst_get. rewrite Hn. cbn [obind].
      rewrite (has_errors_ok src c i b RObject _ H).
      2:{ constructor; [reflexivity|]. apply noerr_app; [apply noerr_ws; exact Hw|].
          apply noerr_app; [apply (noerr_jmems src m ks Hks)|constructor; [reflexivity|constructor]]. }
      cbn [obind]. destruct (children_rule c i b RObject _ H) as [_ Ekn]. rewrite Ekn. cbn [obind].
      destruct (bracket_tops c _ _ _ _ _ _ _ _ Hl) as [i' [b' [i'' [b'' [Hl' Et]]]]]. rewrite Et.
      rewrite (filter_bracket is_member_node) by (reflexivity || exact Hw).
      rewrite (IH i' b' f [] Hl').
      2:{ cbn [csize] in Hf. fold (fsize (CT TLBrace sp1 :: w ++ ks ++ [CT TRBrace sp2])) in Hf.
          rewrite fsize_cons, !fsize_app in Hf. lia. }
      rewrite infer_text_obj, obj_loop_fold.
      destruct (obj_fold infer_text m []) as [cc|[a e]|]; reflexivity.
    - (* one element *)
      intros d v w Hv IHv Hw i b f Hl Hf.
      destruct (locateds_cons _ _ _ _ _ Hl) as [Hlv _].
      cbn [tops filter snd]. rewrite (jv_nonpunct d v b Hv).
      rewrite (filter_tops_none (fun n => negb (is_array_punct n)) w _ _ (ws_punct w Hw)).
      cbn [map fst mapM_o]. rewrite (IHv i b f Hlv) by (rewrite fsize_cons in Hf; lia).
      destruct (infer_text d) as [s|[a e]|]; reflexivity.
    - (* element , elements *)
      intros d v w sp w' l ks Hv IHv Hw Hw' Hks IHks i b f Hl Hf.
      destruct (locateds_cons _ _ _ _ _ Hl) as [Hlv Hl1].
      destruct (locateds_app _ _ _ _ _ Hl1) as [_ Hl2].
      destruct (locateds_cons _ _ _ _ _ Hl2) as [_ Hl3].
      destruct (locateds_app _ _ _ _ _ Hl3) as [_ Hl4].
      rewrite fsize_cons, fsize_app, fsize_cons, fsize_app in Hf.
      cbn [tops filter snd]. rewrite (jv_nonpunct d v b Hv).
      rewrite tops_app, filter_app.
      rewrite (filter_tops_none (fun n => negb (is_array_punct n)) w _ _ (ws_punct w Hw)).
      cbn [tops filter snd hd_node is_array_punct negb app].
      rewrite tops_app, filter_app.
      rewrite (filter_tops_none (fun n => negb (is_array_punct n)) w' _ _ (ws_punct w' Hw')).
      cbn [app map fst mapM_o].
      rewrite (IHv i b f Hlv) by lia. rewrite (IHks _ _ f Hl4) by lia.
      destruct (infer_text d) as [s|[a e]|]; cbn [lift_o obind]; try reflexivity.
      destruct (mapM_o infer_text l) as [ss|[a e]|]; reflexivity.
    - (* one member *)
      intros k d spk w1 spc w2 v w Hk Hw1 Hw2 Hv IHv Hw i b f acc Hl Hf.
      destruct (locateds_cons _ _ _ _ _ Hl) as [Hlm _].
      cbn [tops filter snd]. unfold member_ct at 1. cbn [hd_node is_member_node].
      rewrite (filter_tops_none is_member_node w _ _ (ws_nonmember w Hw)).
      cbn [map fst fold_members].
      rewrite (walk_member src c i b spk w1 spc w2 v k d _ acc Hlm Hk Hw1 Hw2 Hv).
      2:{ intros iv bv Hlv. apply (IHv iv bv f Hlv). rewrite fsize_cons in Hf. unfold member_ct in Hf.
          cbn [csize] in Hf. fold (fsize (CT TString spk :: w1 ++ CT TColon spc :: w2 ++ [v])) in Hf.
          rewrite fsize_cons, fsize_app, fsize_cons, fsize_app, fsize_cons in Hf. lia. }
      cbn [obj_fold].
      destruct (obind (infer_text d) (member_step k acc)) as [cc|[a e]|]; reflexivity.
    - (* member , members *)
      intros k d spk w1 spc w2 v w sp w' m ks Hk Hw1 Hw2 Hv IHv Hw Hw' Hks IHks i b f acc Hl Hf.
      destruct (locateds_cons _ _ _ _ _ Hl) as [Hlm Hl1].
      destruct (locateds_app _ _ _ _ _ Hl1) as [_ Hl2].
      destruct (locateds_cons _ _ _ _ _ Hl2) as [_ Hl3].
      destruct (locateds_app _ _ _ _ _ Hl3) as [_ Hl4].
      rewrite fsize_cons, fsize_app, fsize_cons, fsize_app in Hf.
      cbn [tops filter snd]. unfold member_ct at 1. cbn [hd_node is_member_node].
      rewrite tops_app, filter_app.
      rewrite (filter_tops_none is_member_node w _ _ (ws_nonmember w Hw)).
      cbn [tops filter snd hd_node is_member_node app].
      rewrite tops_app, filter_app.
      rewrite (filter_tops_none is_member_node w' _ _ (ws_nonmember w' Hw')).
      cbn [app map fst fold_members].
      rewrite (walk_member src c i b spk w1 spc w2 v k d _ acc Hlm Hk Hw1 Hw2 Hv).
      2:{ intros iv bv Hlv. apply (IHv iv bv f Hlv). unfold member_ct in Hf.
          cbn [csize] in Hf. fold (fsize (CT TString spk :: w1 ++ CT TColon spc :: w2 ++ [v])) in Hf.
          rewrite fsize_cons, fsize_app, fsize_cons, fsize_app, fsize_cons in Hf. lia. }
      cbn [obj_fold].
      destruct (obind (infer_text d) (member_step k acc)) as [cc|[a e]|]; cbn [lift_o obind]; try reflexivity.
      apply (IHks _ _ f cc Hl4). lia.
  Qed.

  Theorem walk_complete d t : jfile src d t -> c_nodes c = cflat 0 t -> c_spans c = map snd (ctoks t) ->
    parse_cst c src = lift_infer (infer_text d).
  Proof.
    intros Hj Hn Hs. destruct Hj as [d w1 v w2 Hw1 Hv Hw2].
    assert (H : located c 0 0 (CR RFile (w1 ++ v :: w2))).
    { exists [], [], [], []. cbn [cflats cstoks flat_map app length]. rewrite !app_nil_r. repeat split; assumption. }
    destruct (located_rule _ _ _ _ _ H) as [Hn0 [_ Hl]].
    unfold parse_cst. unfold cst_get. rewrite Hn0. cbn [obind].
    rewrite (has_errors_ok src c 0 0 RFile _ H).
    2:{ apply noerr_app; [apply noerr_ws; exact Hw1|]. constructor; [apply (noerr_jv src d v Hv)|apply noerr_ws; exact Hw2]. }
    cbn [obind]. destruct (children_rule c 0 0 RFile _ H) as [_ Ekn]. rewrite Ekn. cbn [obind].
    destruct (locateds_app _ _ _ _ _ Hl) as [_ Hl1]. destruct (locateds_cons _ _ _ _ _ Hl1) as [Hlv _].
    assert (Ef : filter (fun x => negb (is_ws_node (snd x))) (tops 1 0 (w1 ++ v :: w2))
                 = [(1 + fsize w1, hd_node (0 + length (cstoks w1)) v)]).
    { rewrite tops_app, filter_app.
      rewrite (filter_tops_none (fun n => negb (is_ws_node n)) w1 _ _
                 (wsf_heads (fun n => negb (is_ws_node n)) w1 (fun _ => eq_refl) (fun _ => eq_refl) Hw1)).
      cbn [tops filter snd app].
      rewrite (filter_tops_none (fun n => negb (is_ws_node n)) w2 _ _
                 (wsf_heads (fun n => negb (is_ws_node n)) w2 (fun _ => eq_refl) (fun _ => eq_refl) Hw2)).
      destruct (jv_head_rule _ _ _ Hv) as [r [ks [-> [-> |[-> | ->]]]]]; reflexivity. }
    rewrite Ef. cbn [length Nat.ltb Nat.leb fst].
    destruct walk_all as [HV _]. rewrite (HV d v Hv _ _ _ Hlv).
    - symmetry. apply lift_infer_o.
    - rewrite Hn, cflat_length. cbn [csize]. fold (fsize (w1 ++ v :: w2)). rewrite fsize_app, fsize_cons. lia.
  Qed.
End Walk3.
