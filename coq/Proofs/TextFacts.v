(* TextFacts.v — basic facts of the text level: UTF-8 lengths, byte lengths, the slicing
   functions [drop_bytes]/[take_bytes]/[slice_src] (sound and complete w.r.t. a
   decomposition pre ++ fragment ++ post of the source), the value-path cost twin. *)
From Coq Require Import List Bool NArith Lia.
Import ListNotations.
From JS Require Import Model.Base Model.Shape Model.Sem Model.Lexer Model.Parser Model.Walk
  Model.ValueCost Proofs.InferFacts.
Local Open Scope N_scope.

Arguments N.add : simpl never.
Arguments N.sub : simpl never.
Arguments N.mul : simpl never.
Arguments N.leb : simpl never.
Arguments N.ltb : simpl never.
Arguments N.eqb : simpl never.

(* ---------- UTF-8 ---------- *)
Lemma utf8_len_pos c : 1 <= utf8_len c.
Proof. unfold utf8_len. repeat destruct (_ <? _); lia. Qed.

Lemma utf8_len_le4 c : utf8_len c <= 4.
Proof. unfold utf8_len. repeat destruct (_ <? _); lia. Qed.

Lemma utf8_len_ascii c : c < 128 -> utf8_len c = 1.
Proof. intros H. unfold utf8_len. apply N.ltb_lt in H. rewrite H. reflexivity. Qed.

Lemma byte_len_app a b : byte_len (a ++ b) = byte_len a + byte_len b.
Proof. induction a as [|c a IH]; cbn [app byte_len]; [lia|]. rewrite IH. lia. Qed.

Lemma byte_len_cons c r : byte_len (c :: r) = utf8_len c + byte_len r.
Proof. reflexivity. Qed.

Lemma byte_len_zero cs : byte_len cs = 0 -> cs = [].
Proof. destruct cs as [|c r]; [reflexivity|]. cbn [byte_len]. pose proof (utf8_len_pos c). lia. Qed.

(* ---------- slicing ---------- *)
Lemma drop_bytes_spec : forall cs n r, drop_bytes n cs = Some r ->
  exists pre, cs = pre ++ r /\ byte_len pre = n.
Proof.
  induction cs as [|c cs IH]; intros n r H; cbn [drop_bytes] in H.
  - destruct (N.eqb n 0) eqn:E; [|discriminate]. inversion H; subst. apply N.eqb_eq in E.
    exists []. split; [reflexivity|]. cbn. lia.
  - destruct (N.eqb n 0) eqn:E.
    + inversion H; subst. apply N.eqb_eq in E. exists []. split; [reflexivity|cbn; lia].
    + destruct (N.leb (utf8_len c) n) eqn:L; [|discriminate]. apply N.leb_le in L.
      destruct (IH _ _ H) as [pre [-> Hp]]. exists (c :: pre). split; [reflexivity|].
      cbn [byte_len]. lia.
Qed.

Lemma take_bytes_spec : forall cs n fr, take_bytes n cs = Some fr ->
  exists post, cs = fr ++ post /\ byte_len fr = n.
Proof.
  induction cs as [|c cs IH]; intros n fr H; cbn [take_bytes] in H.
  - destruct (N.eqb n 0) eqn:E; [|discriminate]. inversion H; subst. apply N.eqb_eq in E.
    exists []. split; [reflexivity|cbn; lia].
  - destruct (N.eqb n 0) eqn:E.
    + inversion H; subst. apply N.eqb_eq in E. exists (c :: cs). split; [reflexivity|cbn; lia].
    + destruct (N.leb (utf8_len c) n) eqn:L; [|discriminate]. apply N.leb_le in L.
      destruct (take_bytes (n - utf8_len c) cs) as [fr'|] eqn:T; [|discriminate].
      cbn in H. inversion H; subst. destruct (IH _ _ T) as [post [-> Hp]].
      exists post. split; [reflexivity|]. cbn [byte_len]. lia.
Qed.

(* the C05 reading of a faithful range: the source decomposes as pre ++ fragment ++ post
   with the range = (bytes of pre, bytes of pre ++ fragment): inside the input, both ends
   on character boundaries, fragment = input at the range *)
Definition faithful (src : list char) (sp : span) (fr : list char) : Prop :=
  exists pre post, src = pre ++ fr ++ post /\ byte_len pre = fst sp
                   /\ byte_len pre + byte_len fr = snd sp.

Theorem slice_src_spec src sp fr : slice_src src sp = Some fr -> faithful src sp fr.
Proof.
  unfold slice_src. destruct (N.leb (fst sp) (snd sp)) eqn:L; [|discriminate].
  apply N.leb_le in L. destruct (drop_bytes (fst sp) src) as [r|] eqn:D; [|discriminate].
  intros T. destruct (drop_bytes_spec _ _ _ D) as [pre [-> Hp]].
  destruct (take_bytes_spec _ _ _ T) as [post [-> Hf]].
  exists pre, post. repeat split; [assumption|lia].
Qed.

Lemma faithful_in_range src sp fr : faithful src sp fr ->
  fst sp <= snd sp /\ snd sp <= byte_len src.
Proof.
  intros [pre [post [-> [H1 H2]]]]. rewrite !byte_len_app. lia.
Qed.

Lemma drop_bytes_complete : forall pre r, drop_bytes (byte_len pre) (pre ++ r) = Some r.
Proof.
  induction pre as [|c pre IH]; intros r.
  - cbn [byte_len app]. destruct r; reflexivity.
  - cbn [byte_len app drop_bytes]. pose proof (utf8_len_pos c).
    destruct (N.eqb (utf8_len c + byte_len pre) 0) eqn:E; [apply N.eqb_eq in E; lia|].
    destruct (N.leb (utf8_len c) (utf8_len c + byte_len pre)) eqn:L; [|apply N.leb_gt in L; lia].
    replace (utf8_len c + byte_len pre - utf8_len c) with (byte_len pre) by lia. apply IH.
Qed.

Lemma take_bytes_complete : forall fr post, take_bytes (byte_len fr) (fr ++ post) = Some fr.
Proof.
  induction fr as [|c fr IH]; intros post.
  - cbn [byte_len app]. destruct post; reflexivity.
  - cbn [byte_len app take_bytes]. pose proof (utf8_len_pos c).
    destruct (N.eqb (utf8_len c + byte_len fr) 0) eqn:E; [apply N.eqb_eq in E; lia|].
    destruct (N.leb (utf8_len c) (utf8_len c + byte_len fr)) eqn:L; [|apply N.leb_gt in L; lia].
    replace (utf8_len c + byte_len fr - utf8_len c) with (byte_len fr) by lia. rewrite IH. reflexivity.
Qed.

Theorem slice_src_complete src sp fr : faithful src sp fr -> slice_src src sp = Some fr.
Proof.
  destruct sp as [a b]. intros [pre [post [-> [H1 H2]]]]. unfold slice_src. cbn [fst snd] in *.
  destruct (N.leb a b) eqn:L; [|apply N.leb_gt in L; lia].
  rewrite <- H1, drop_bytes_complete.
  replace (b - byte_len pre) with (byte_len fr) by lia. apply take_bytes_complete.
Qed.

(* ---------- value path cost ---------- *)
Lemma vcalls_linear : forall d, vcalls d = jnodes d.
Proof.
  unfold jnodes. induction d as [| | | |l IH|m IH] using json_ind'; try reflexivity.
  - cbn [vcalls jsize]. rewrite Nat2N.inj_succ.
    assert (E : sumN (map vcalls l) = N.of_nat (fold_right (fun e n => (jsize e + n)%nat) 0%nat l)).
    { induction IH as [|x r Hx Hr IHr]; [reflexivity|]. cbn [map sumN fold_right].
      rewrite Nat2N.inj_add, <- IHr, Hx. reflexivity. }
    rewrite E. lia.
  - cbn [vcalls jsize]. rewrite Nat2N.inj_succ.
    assert (E : sumN (map (fun kv => vcalls (snd kv)) m)
                = N.of_nat (fold_right (fun p n => (jsize (snd p) + n)%nat) 0%nat m)).
    { induction IH as [|x r Hx Hr IHr]; [reflexivity|]. cbn [map sumN fold_right].
      rewrite Nat2N.inj_add, <- IHr, Hx. reflexivity. }
    rewrite E. lia.
Qed.
