(* LexComplete.v — C04 stage 2, completeness direction (longest match = RFC tokenisation):
   on a text of the RFC 8259 grammar ([json_text s d], Model/JsonRef.v) of nesting depth at
   most 256 the lexer model emits no diagnostic, does not hit the nesting cap, and its token
   list is the token list of a CST tree [t] of the document ([jfile s d t], Proofs/CstTree.v):
   one Number token per number, one String token (silent check_string) per string, literal
   and structural tokens, and only Whitespace / Newline tokens in between.
   Needs [f3_cr_newline] (a bare CR is whitespace in the RFC). *)
From Coq Require Import List Bool Arith NArith Lia.
Import ListNotations.
From JS Require Import Model.Base Model.Shape Model.Sem Model.Lexer Model.Parser Model.JsonRef
  Proofs.TextFacts Proofs.TextLexer Proofs.TextLexSpec Proofs.CstTree.
Local Open Scope N_scope.

(* ---------- fuel: any fuel >= the number of characters gives the same result ---------- *)
Lemma lex_loop_fuel cf : forall n cs f1 f2 pos o c,
  (length cs <= n)%nat -> (length cs <= f1)%nat -> (length cs <= f2)%nat ->
  lex_loop cf f1 pos cs o c = lex_loop cf f2 pos cs o c.
Proof.
  induction n as [|n IH]; intros cs f1 f2 pos o c Hn H1 H2.
  - destruct cs; [destruct f1, f2; reflexivity|cbn in Hn; lia].
  - destruct cs as [|ch r]; [destruct f1, f2; reflexivity|].
    destruct f1 as [|f1]; [cbn in H1; lia|]. destruct f2 as [|f2]; [cbn in H2; lia|].
    cbn [lex_loop]. destruct (lex1 cf ch r) as [[res lexeme] rest] eqn:E.
    destruct (lex1_split _ _ _ _ _ _ E) as [Hs [Hne _]].
    assert (Hl : (length rest <= length r)%nat).
    { assert (L : length (ch :: r) = (length lexeme + length rest)%nat) by (rewrite Hs; apply app_length).
      destruct lexeme; [contradiction|]. cbn [length] in *. lia. }
    cbn [length] in Hn, H1, H2.
    assert (X : forall p o' c', lex_loop cf f1 p rest o' c' = lex_loop cf f2 p rest o' c').
    { intros. apply IH; lia. }
    destruct res as [t| |]; [|rewrite X; reflexivity|rewrite X; reflexivity].
    destruct (match t with TString => check_string cf lexeme pos | _ => Some [] end); [|reflexivity].
    destruct (bracket_delta t o c) as [o' c']. rewrite X. reflexivity.
Qed.

Definition lexn (cf : cfg) (pos : N) (cs : list char) (o c : N) : lexed :=
  lex_loop cf (length cs) pos cs o c.

Definition lapp (ts : list (tok * span)) (x : lexed) : lexed :=
  {| l_toks := ts ++ l_toks x; l_diags := l_diags x; l_status := l_status x |}.

Lemma lapp_nil x : lapp [] x = x.
Proof. destruct x; reflexivity. Qed.
Lemma lapp_app a b x : lapp (a ++ b) x = lapp a (lapp b x).
Proof. unfold lapp. cbn. rewrite app_assoc. reflexivity. Qed.

Lemma lexn_nil cf pos o c : lexn cf pos [] o c = {| l_toks := []; l_diags := []; l_status := LDone |}.
Proof. reflexivity. Qed.

(* one silent token *)
Lemma lexn_tok cf pos ch r o c t lexeme rest o' c' :
  lex1 cf ch r = (LOk t, lexeme, rest) ->
  (match t with TString => check_string cf lexeme pos | _ => Some [] end) = Some [] ->
  bracket_delta t o c = (o', c') -> (c' + 256 <? o') = false ->
  lexn cf pos (ch :: r) o c
  = lapp [(t, (pos, pos + byte_len lexeme))] (lexn cf (pos + byte_len lexeme) rest o' c').
Proof.
  intros E Hc Hb Hcap. unfold lexn. cbn [length lex_loop]. rewrite E, Hc, Hb. cbn [snd]. rewrite Hcap.
  destruct (lex1_split _ _ _ _ _ _ E) as [Hs [Hne _]].
  assert (Hl : (length rest <= length r)%nat).
  { assert (L : length (ch :: r) = (length lexeme + length rest)%nat) by (rewrite Hs; apply app_length).
    destruct lexeme; [contradiction|]. cbn [length] in *. lia. }
  rewrite (lex_loop_fuel cf (length r) rest (length r) (length rest)); [reflexivity|lia|lia|lia].
Qed.

(* ---------- heads ---------- *)
Definition hd_in (P : char -> Prop) (x : list char) : Prop :=
  match x with [] => True | c :: _ => P c end.

Definition is_delim (c : char) : bool := is_ws_char c || (c =? 44) || (c =? 93) || (c =? 125).
Definition delim (c : char) : Prop := is_delim c = true.
Definition nonws (c : char) : Prop := is_ws_char c = false.

Lemma delim_cases c : delim c -> c = 32 \/ c = 9 \/ c = 10 \/ c = 13 \/ c = 44 \/ c = 93 \/ c = 125.
Proof.
  unfold delim, is_delim, is_ws_char. intros H.
  repeat (apply orb_true_iff in H; destruct H as [H|H]); apply N.eqb_eq in H; auto 10.
Qed.

Ltac delim_solve H :=
  let X := fresh in
  destruct (delim_cases _ H) as [X|[X|[X|[X|[X|[X|X]]]]]]; subst; reflexivity.

Lemma delim_nondigit c : delim c -> is_dec_digit c = false.
Proof. intros H. delim_solve H. Qed.
Lemma delim_nonalnum c : delim c -> is_alnum c = false.
Proof. intros H. delim_solve H. Qed.
Lemma delim_not_dot c : delim c -> (c =? 46) = false.
Proof. intros H. delim_solve H. Qed.
Lemma delim_not_e c : delim c -> ((c =? 101) || (c =? 69)) = false.
Proof. intros H. delim_solve H. Qed.

Lemma ws_chars w : ws w -> Forall (fun c => is_ws_char c = true) w.
Proof. induction 1; constructor; assumption. Qed.

Lemma ws_delim_head w c x : ws w -> delim c -> hd_in delim (w ++ c :: x).
Proof.
  intros Hw Hc. destruct Hw as [|c' r Hc' _]; [exact Hc|].
  cbn. unfold delim, is_delim. rewrite Hc'. reflexivity.
Qed.
Lemma ws_delim_end w : ws w -> hd_in delim (w ++ []).
Proof.
  intros Hw. destruct Hw as [|c' r Hc' _]; [exact I|].
  cbn. unfold delim, is_delim. rewrite Hc'. reflexivity.
Qed.

(* ---------- longest match of a character class ---------- *)
Lemma split_while_exact p : forall ds x, Forall (fun c => p c = true) ds ->
  hd_in (fun c => p c = false) x -> split_while p (ds ++ x) = (ds, x).
Proof.
  induction ds as [|d ds IH]; intros x Hf Hx.
  - destruct x as [|c r]; [reflexivity|]. cbn in Hx. cbn [app split_while]. rewrite Hx. reflexivity.
  - inversion Hf; subst. cbn [app split_while]. rewrite H1, (IH x H2 Hx). reflexivity.
Qed.

Lemma digits1_forall r : digits1 r -> Forall (fun c => is_dec_digit c = true) r /\ r <> [].
Proof.
  induction 1 as [c Hc|c r Hc _ [IH _]]; (split; [|discriminate]).
  - constructor; [exact Hc|constructor].
  - constructor; [exact Hc|exact IH].
Qed.

Lemma digits_split r x : digits1 r -> hd_in (fun c => is_dec_digit c = false) x ->
  split_while is_dec_digit (r ++ x) = (r, x).
Proof. intros Hr Hx. apply split_while_exact; [apply (digits1_forall r Hr)|exact Hx]. Qed.

(* ---------- numbers ---------- *)
Lemma rdigit_not48_19 c : rdigit c = true -> c <> 48 -> is_digit19 c = true /\ (c =? 48) = false.
Proof.
  unfold rdigit, is_digit19. intros H Hn. apply andb_true_iff in H. destruct H as [H1 H2].
  apply N.leb_le in H1. split; [|apply N.eqb_neq; exact Hn].
  apply andb_true_iff. split; [apply N.leb_le; lia|exact H2].
Qed.

Lemma scan_int_complete i x : int_lit i -> hd_in (fun c => is_dec_digit c = false) x ->
  scan_int (i ++ x) = Some (i, x).
Proof.
  intros Hi Hx. destruct Hi as [|c Hc Hn|c r Hc Hn Hr].
  - reflexivity.
  - destruct (rdigit_not48_19 c Hc Hn) as [H19 H48]. cbn [app scan_int]. rewrite H48, H19.
    pose proof (split_while_exact is_dec_digit [] x (Forall_nil _) Hx) as Sw. cbn [app] in Sw. rewrite Sw. reflexivity.
  - destruct (rdigit_not48_19 c Hc Hn) as [H19 H48]. cbn [app scan_int]. rewrite H48, H19.
    rewrite (digits_split r x Hr Hx). reflexivity.
Qed.

Lemma scan_frac_complete f x : frac_lit f -> hd_in (fun c => is_dec_digit c = false) x ->
  hd_in (fun c => (c =? 46) = false) x -> scan_frac (f ++ x) = (f, x).
Proof.
  intros Hf Hx Hd. destruct Hf as [|r Hr].
  - destruct x as [|c x']; [reflexivity|]. cbn in Hd. cbn [app scan_frac]. rewrite Hd. reflexivity.
  - cbn [app scan_frac]. change (46 =? 46) with true. cbv iota.
    rewrite (digits_split r x Hr Hx). destruct r as [|d r']; [|reflexivity].
    destruct (digits1_forall _ Hr) as [_ Hne]. contradiction.
Qed.

Lemma digit_not_sign d : is_dec_digit d = true -> ((d =? 43) || (d =? 45)) = false.
Proof.
  unfold is_dec_digit. intros H. apply andb_true_iff in H. destruct H as [H1 H2]. apply N.leb_le in H1.
  apply orb_false_iff. split; apply N.eqb_neq; lia.
Qed.

Lemma scan_exp_complete e x : exp_lit e -> hd_in (fun c => is_dec_digit c = false) x ->
  hd_in (fun c => ((c =? 101) || (c =? 69)) = false) x -> scan_exp (e ++ x) = (e, x).
Proof.
  intros He Hx Hd. destruct He as [|e r He Hr|e s r He Hs Hr].
  - destruct x as [|c x']; [reflexivity|]. cbn in Hd. cbn [app scan_exp]. rewrite Hd. reflexivity.
  - assert (Ee : ((e =? 101) || (e =? 69)) = true) by (destruct He; subst; reflexivity).
    cbn [app scan_exp]. rewrite Ee. destruct (digits1_forall _ Hr) as [Hf Hne].
    destruct r as [|d r']; [contradiction|]. inversion Hf; subst.
    cbn [app]. rewrite (digit_not_sign d H1).
    change (d :: r' ++ x) with ((d :: r') ++ x). rewrite (digits_split _ x Hr Hx). reflexivity.
  - assert (Ee : ((e =? 101) || (e =? 69)) = true) by (destruct He; subst; reflexivity).
    assert (Es : ((s =? 43) || (s =? 45)) = true) by (destruct Hs; subst; reflexivity).
    cbn [app scan_exp]. rewrite Ee, Es. destruct (digits1_forall _ Hr) as [Hf Hne].
    rewrite (digits_split _ x Hr Hx). destruct r as [|d r']; [contradiction|]. reflexivity.
Qed.

Lemma int_lit_head i : int_lit i -> exists c r, i = c :: r /\ is_dec_digit c = true.
Proof. intros H. destruct H as [|c Hc _|c r Hc _ _]; eexists; eexists; (split; [reflexivity|]); [reflexivity|exact Hc|exact Hc]. Qed.

Lemma digit_not_minus c : is_dec_digit c = true -> (c =? 45) = false.
Proof.
  unfold is_dec_digit. intros H. apply andb_true_iff in H. destruct H as [H1 H2]. apply N.leb_le in H1.
  apply N.eqb_neq. lia.
Qed.

Lemma num_parts i f e rest : int_lit i -> frac_lit f -> exp_lit e -> hd_in delim rest ->
  scan_int (i ++ f ++ e ++ rest) = Some (i, f ++ e ++ rest) /\
  scan_frac (f ++ e ++ rest) = (f, e ++ rest) /\ scan_exp (e ++ rest) = (e, rest).
Proof.
  intros Hi Hf He Hr.
  assert (R1 : hd_in (fun c => is_dec_digit c = false) rest) by (destruct rest; [exact I|apply delim_nondigit; exact Hr]).
  assert (R2 : hd_in (fun c => (c =? 46) = false) rest) by (destruct rest; [exact I|apply delim_not_dot; exact Hr]).
  assert (R3 : hd_in (fun c => ((c =? 101) || (c =? 69)) = false) rest) by (destruct rest; [exact I|apply delim_not_e; exact Hr]).
  assert (E1 : hd_in (fun c => is_dec_digit c = false) (e ++ rest)).
  { destruct He as [|e0 r He0 _|e0 s r He0 _ _]; [exact R1| |]; destruct He0; subst; reflexivity. }
  assert (E2 : hd_in (fun c => (c =? 46) = false) (e ++ rest)).
  { destruct He as [|e0 r He0 _|e0 s r He0 _ _]; [exact R2| |]; destruct He0; subst; reflexivity. }
  assert (F1 : hd_in (fun c => is_dec_digit c = false) (f ++ e ++ rest)).
  { destruct Hf as [|r _]; [exact E1|reflexivity]. }
  split; [exact (scan_int_complete i _ Hi F1)|].
  split; [exact (scan_frac_complete f _ Hf E1 E2)|exact (scan_exp_complete e _ He R1 R3)].
Qed.

Lemma scan_number_complete n rest : number_lit n -> hd_in delim rest ->
  scan_number (n ++ rest) = Some (n, rest).
Proof.
  intros Hn Hr. destruct Hn as [i f e Hi Hf He|i f e Hi Hf He];
    destruct (num_parts i f e rest Hi Hf He Hr) as [Si [Sf Se]].
  - rewrite <- !app_assoc. destruct (int_lit_head i Hi) as [c [r [-> Hc]]]. unfold scan_number. cbn [app].
    rewrite (digit_not_minus c Hc). change (c :: r ++ f ++ e ++ rest) with ((c :: r) ++ f ++ e ++ rest).
    rewrite Si, Sf, Se. reflexivity.
  - cbn [app]. rewrite <- !app_assoc. unfold scan_number. change (45 =? 45) with true. cbv iota.
    rewrite Si, Sf, Se. reflexivity.
Qed.

(* ---------- strings ---------- *)
Lemma unescaped_plain c : unescaped c = true -> (c =? 34) = false /\ (c =? 92) = false /\ (32 <=? c) = true.
Proof.
  unfold unescaped. intros H. repeat (apply andb_true_iff in H; destruct H as [H ?]).
  repeat split; try assumption; apply negb_true_iff; assumption.
Qed.

Lemma rhex_plain c : rhex c = true -> (c =? 34) = false /\ (c =? 92) = false /\ (32 <=? c) = true /\ is_hexdigit c = true.
Proof.
  intros H. assert (Hh : is_hexdigit c = true) by exact H.
  destruct (is_hexdigit_plain c Hh) as [_ [A B]]. repeat split; try assumption.
  unfold rhex, rdigit in H. apply N.leb_le.
  repeat (apply orb_true_iff in H; destruct H as [H|H]); apply andb_true_iff in H; destruct H as [H1 H2];
    apply N.leb_le in H1; lia.
Qed.

Lemma scan_string_complete body : str_chars body -> forall rest,
  scan_string (body ++ 34 :: rest) = Some (body ++ [34], rest).
Proof.
  induction 1 as [|c r Hc _ IH|c r Hc _ IH|a b c d r Ha Hb Hc Hd _ IH]; intros rest.
  - reflexivity.
  - destruct (unescaped_plain c Hc) as [E1 [E2 _]]. cbn [app scan_string]. rewrite E1, E2, IH. reflexivity.
  - cbn [app scan_string]. change (92 =? 34) with false. change (92 =? 92) with true. cbv iota.
    rewrite IH. reflexivity.
  - destruct (rhex_plain a Ha) as [A1 [A2 _]]. destruct (rhex_plain b Hb) as [B1 [B2 _]].
    destruct (rhex_plain c Hc) as [C1 [C2 _]]. destruct (rhex_plain d Hd) as [D1 [D2 _]].
    cbn [app scan_string]. change (92 =? 34) with false. change (92 =? 92) with true. cbv iota.
    rewrite A1, A2, B1, B2, C1, C2, D1, D2, IH. reflexivity.
Qed.

Lemma check_chars_complete bytes st body : str_chars body -> forall i,
  check_chars bytes st (body ++ [34]) i MNormal = Some [].
Proof.
  induction 1 as [|c r Hc _ IH|c r Hc _ IH|a b c d r Ha Hb Hc Hd _ IH]; intros i.
  - reflexivity.
  - destruct (unescaped_plain c Hc) as [_ [E2 E3]]. cbn [app check_chars]. rewrite E2, E3. apply IH.
  - cbn [app check_chars]. change (92 =? 92) with true. cbv iota.
    rewrite simple_escape_letter, Hc. apply IH.
  - destruct (rhex_plain a Ha) as [_ [_ [_ A]]]. destruct (rhex_plain b Hb) as [_ [_ [_ B]]].
    destruct (rhex_plain c Hc) as [_ [_ [_ C]]]. destruct (rhex_plain d Hd) as [_ [_ [_ D]]].
    cbn [app check_chars]. change (92 =? 92) with true. cbv iota.
    change (is_simple_escape 117) with false. change (117 =? 117) with true. cbv iota.
    rewrite A, B, C, D.
    change (0 =? 3) with false. change (0 + 1 =? 3) with false. change (0 + 1 + 1 =? 3) with false.
    change (0 + 1 + 1 + 1 =? 3) with true. cbv iota. apply IH.
Qed.

Lemma check_string_complete cf body st : str_chars body -> check_string cf (34 :: body ++ [34]) st = Some [].
Proof.
  intros H. unfold check_string. cbn [check_chars]. change (34 =? 92) with false. change (32 <=? 34) with true.
  cbv iota. apply check_chars_complete. exact H.
Qed.

(* ---------- one logos step on each lexeme class ---------- *)
Lemma lex1_string cf r : lex1 cf 34 r =
  match scan_string r with
  | Some (w, r') => (LOk TString, 34 :: w, r')
  | None => (LUnterminated, 34 :: r, [])
  end.
Proof. reflexivity. Qed.

Lemma lex1_punct cf c r t : punct c = Some t -> lex1 cf c r = (LOk t, [c], r).
Proof.
  unfold punct. intros H.
  assert (X : c = 123 \/ c = 125 \/ c = 91 \/ c = 93 \/ c = 44 \/ c = 58).
  { repeat (destruct (c =? _) eqn:E; [apply N.eqb_eq in E; auto 10|clear E]). discriminate H. }
  destruct X as [X|[X|[X|[X|[X|X]]]]]; subst c; cbv in H; inversion H; subst; reflexivity.
Qed.

Lemma lex1_blank cf c r : is_blank c = true -> lex1 cf c r =
  let '(w, r') := split_while is_blank r in (LOk TWhitespace, c :: w, r').
Proof. intros H. unfold lex1. rewrite H. reflexivity. Qed.

Lemma lex1_lf cf r : lex1 cf 10 r = (LOk TNewline, [10], r).
Proof. reflexivity. Qed.

Lemma lex1_cr cf r : f3_cr_newline cf = true -> lex1 cf 13 r =
  match r with
  | d :: r' => if d =? 10 then (LOk TNewline, [13; d], r') else (LOk TNewline, [13], r)
  | [] => (LOk TNewline, [13], r)
  end.
Proof. intros H. unfold lex1. rewrite H. reflexivity. Qed.

Lemma numhead_tests c : c = 45 \/ is_dec_digit c = true ->
  is_blank c = false /\ (c =? 10) = false /\ (c =? 13) = false /\ punct c = None /\ (c =? 34) = false
  /\ ((c =? 45) || is_dec_digit c) = true.
Proof.
  intros [->|H]; [repeat split; reflexivity|].
  unfold is_dec_digit in H. apply andb_true_iff in H. destruct H as [H1 H2].
  apply N.leb_le in H1. apply N.leb_le in H2.
  assert (X : forall k, (k < 48 \/ 57 < k) -> (c =? k) = false) by (intros k Hk; apply N.eqb_neq; lia).
  unfold is_blank, punct, is_dec_digit. rewrite !X by lia.
  repeat split; try reflexivity.
  apply orb_true_iff. right. apply andb_true_iff. split; apply N.leb_le; assumption.
Qed.

Lemma lex1_number cf (c : char) (r : list char) w rest : c = 45 \/ is_dec_digit c = true ->
  scan_number (c :: r) = Some (w, rest) -> lex1 cf c r = (LOk TNumber, w, rest).
Proof.
  intros Hc Hs. destruct (numhead_tests c Hc) as [A [B [C [D [E F]]]]].
  unfold lex1. rewrite A, B, C, D, E, F, Hs. reflexivity.
Qed.

Lemma number_head n : number_lit n -> exists c r, n = c :: r /\ (c = 45 \/ is_dec_digit c = true).
Proof.
  intros H. destruct H as [i f e Hi _ _|i f e Hi _ _].
  - destruct (int_lit_head i Hi) as [c [r [-> Hc]]]. exists c, (r ++ f ++ e). split; [reflexivity|right; exact Hc].
  - exists 45, (i ++ f ++ e). split; [reflexivity|left; reflexivity].
Qed.

Lemma lex1_number_lit cf n rest : number_lit n -> hd_in delim rest ->
  exists c r, n ++ rest = c :: r /\ lex1 cf c r = (LOk TNumber, n, rest).
Proof.
  intros Hn Hr. destruct (number_head n Hn) as [c [r [E Hc]]].
  exists c, (r ++ rest). split; [rewrite E; reflexivity|].
  apply lex1_number; [exact Hc|]. change (c :: r ++ rest) with ((c :: r) ++ rest). rewrite <- E.
  apply scan_number_complete; assumption.
Qed.

Lemma alpha_tests c : is_alpha c = true ->
  is_blank c = false /\ (c =? 10) = false /\ (c =? 13) = false /\ punct c = None /\ (c =? 34) = false
  /\ ((c =? 45) || is_dec_digit c) = false.
Proof.
  unfold is_alpha. intros H.
  assert (R : 65 <= c <= 90 \/ 97 <= c <= 122).
  { apply orb_true_iff in H. destruct H as [H|H]; apply andb_true_iff in H; destruct H as [H1 H2];
      apply N.leb_le in H1; apply N.leb_le in H2; [left|right]; lia. }
  assert (X : forall k, (k < 65 \/ (90 < k /\ k < 97) \/ 122 < k) -> (c =? k) = false) by (intros k Hk; apply N.eqb_neq; lia).
  unfold is_blank, punct, is_dec_digit. rewrite !X by lia.
  repeat split; try reflexivity.
  cbn [orb]. apply andb_false_iff. right. apply N.leb_gt. lia.
Qed.

Lemma lex1_word cf c w rest : is_alpha c = true -> Forall (fun x => is_alnum x = true) w ->
  hd_in (fun x => is_alnum x = false) rest ->
  lex1 cf c (w ++ rest) =
  ((if chars_eqb (c :: w) w_true then LOk TTrue
    else if chars_eqb (c :: w) w_false then LOk TFalse
    else if chars_eqb (c :: w) w_null then LOk TNull else LInvalid), c :: w, rest).
Proof.
  intros Hc Hw Hr. destruct (alpha_tests c Hc) as [A [B [C [D [E F]]]]].
  unfold lex1. rewrite A, B, C, D, E, F, Hc, (split_while_exact is_alnum w rest Hw Hr). reflexivity.
Qed.

Lemma lex1_literal cf (w : list char) t rest :
  (w = w_null /\ t = TNull) \/ (w = w_true /\ t = TTrue) \/ (w = w_false /\ t = TFalse) ->
  hd_in delim rest ->
  exists c r, w ++ rest = c :: r /\ lex1 cf c r = (LOk t, w, rest).
Proof.
  intros Hw Hr.
  assert (Hr' : hd_in (fun x => is_alnum x = false) rest) by (destruct rest; [exact I|apply delim_nonalnum; exact Hr]).
  destruct Hw as [[-> ->]|[[-> ->]|[-> ->]]].
  - exists 110, ([117; 108; 108] ++ rest). split; [reflexivity|].
    rewrite lex1_word; [reflexivity|reflexivity|repeat constructor|exact Hr'].
  - exists 116, ([114; 117; 101] ++ rest). split; [reflexivity|].
    rewrite lex1_word; [reflexivity|reflexivity|repeat constructor|exact Hr'].
  - exists 102, ([97; 108; 115; 101] ++ rest). split; [reflexivity|].
    rewrite lex1_word; [reflexivity|reflexivity|repeat constructor|exact Hr'].
Qed.

(* ---------- whitespace runs ---------- *)
Lemma nonws_nonblank c : nonws c -> is_blank c = false.
Proof.
  unfold nonws, is_ws_char, is_blank. intros H.
  apply orb_false_iff in H. destruct H as [H _]. apply orb_false_iff in H. destruct H as [H _]. exact H.
Qed.

Lemma ws_blank_split : forall w rest, ws w -> hd_in nonws rest ->
  exists b w2, w = b ++ w2 /\ ws w2 /\ split_while is_blank (w ++ rest) = (b, w2 ++ rest).
Proof.
  intros w rest Hw Hr. induction Hw as [|c r Hc Hw IH].
  - exists [], []. split; [reflexivity|]. split; [constructor|].
    destruct rest as [|x rest']; [reflexivity|]. cbn in Hr. cbn [app split_while].
    rewrite (nonws_nonblank x Hr). reflexivity.
  - destruct IH as [b [w2 [E [Hw2 Hs]]]]. cbn [app split_while]. destruct (is_blank c) eqn:Eb.
    + exists (c :: b), w2. split; [rewrite E; reflexivity|]. split; [exact Hw2|]. rewrite Hs. reflexivity.
    + exists [], (c :: r). split; [reflexivity|]. split; [constructor; assumption|reflexivity].
Qed.

Definition steps (cf : cfg) (pre x rest : list char) (o c : N) (ts : list (tok * span)) (o' c' : N) : Prop :=
  lexn cf (byte_len pre) (x ++ rest) o c = lapp ts (lexn cf (byte_len (pre ++ x)) rest o' c').

Lemma steps_nil cf pre rest o c : steps cf pre [] rest o c [] o c.
Proof. unfold steps. rewrite app_nil_r, lapp_nil. reflexivity. Qed.

Lemma steps_trans cf pre x y rest o c ts1 o1 c1 ts2 o2 c2 :
  steps cf pre x (y ++ rest) o c ts1 o1 c1 -> steps cf (pre ++ x) y rest o1 c1 ts2 o2 c2 ->
  steps cf pre (x ++ y) rest o c (ts1 ++ ts2) o2 c2.
Proof.
  unfold steps. intros H1 H2. rewrite <- app_assoc, H1, H2, lapp_app, <- app_assoc. reflexivity.
Qed.

Lemma steps_trans' cf pre x r1 o c ts1 o1 c1 pre2 y rest ts2 o2 c2 :
  steps cf pre x r1 o c ts1 o1 c1 -> steps cf pre2 y rest o1 c1 ts2 o2 c2 ->
  r1 = y ++ rest -> pre2 = pre ++ x -> steps cf pre (x ++ y) rest o c (ts1 ++ ts2) o2 c2.
Proof. intros H1 H2 -> ->. eapply steps_trans; eassumption. Qed.

Lemma steps_eq cf pre x rest o c ts o' c' x' ts' o'' c'' :
  steps cf pre x rest o c ts o' c' -> x = x' -> ts = ts' -> o' = o'' -> c' = c'' ->
  steps cf pre x' rest o c ts' o'' c''.
Proof. intros H -> -> -> ->. exact H. Qed.

Lemma steps_tok cf pre (x rest : list char) o c t o' c' (ch : char) (r : list char) :
  x ++ rest = ch :: r -> lex1 cf ch r = (LOk t, x, rest) ->
  (match t with TString => check_string cf x (byte_len pre) | _ => Some [] end) = Some [] ->
  bracket_delta t o c = (o', c') -> (c' + 256 <? o') = false ->
  steps cf pre x rest o c [(t, (byte_len pre, byte_len pre + byte_len x))] o' c'.
Proof.
  intros E H1 Hc Hb Hcap. unfold steps. rewrite E, byte_len_app.
  apply (lexn_tok cf (byte_len pre) ch r o c t x rest o' c' H1 Hc Hb Hcap).
Qed.

Lemma cap_ok o c : o <= c + 256 -> (c + 256 <? o) = false.
Proof. intros H. apply N.ltb_ge. exact H. Qed.

Lemma steps_ws cf : f3_cr_newline cf = true -> forall n w, (length w <= n)%nat -> ws w ->
  forall pre rest o c, hd_in nonws rest -> o <= c + 256 ->
  exists wt, wsf wt /\ steps cf pre w rest o c (cstoks wt) o c.
Proof.
  intros F3. induction n as [|n IH]; intros w Hn Hw pre rest o c Hr Hcap.
  - destruct w; [|cbn in Hn; lia]. exists []. split; [constructor|apply steps_nil].
  - destruct Hw as [|ch w Hch Hw]; [exists []; split; [constructor|apply steps_nil]|].
    cbn [length] in Hn.
    assert (Cases : ch = 32 \/ ch = 9 \/ ch = 10 \/ ch = 13).
    { unfold is_ws_char in Hch. repeat (apply orb_true_iff in Hch; destruct Hch as [Hch|Hch]);
        apply N.eqb_eq in Hch; auto. }
    assert (Blank : is_blank ch = true -> exists wt, wsf wt /\ steps cf pre (ch :: w) rest o c (cstoks wt) o c).
    { intros Hb. destruct (ws_blank_split w rest Hw Hr) as [b [w2 [E [Hw2 Hs]]]].
      assert (L1 : lex1 cf ch (w ++ rest) = (LOk TWhitespace, ch :: b, w2 ++ rest)).
      { rewrite lex1_blank by exact Hb. rewrite Hs. reflexivity. }
      assert (S1 : steps cf pre (ch :: b) (w2 ++ rest) o c
                     [(TWhitespace, (byte_len pre, byte_len pre + byte_len (ch :: b)))] o c).
      { eapply steps_tok; [|exact L1|reflexivity|reflexivity|apply cap_ok; exact Hcap].
        cbn [app]. rewrite app_assoc, <- E. reflexivity. }
      assert (Hlen : (length w2 <= n)%nat) by (rewrite E, app_length in Hn; lia).
      destruct (IH w2 Hlen Hw2 (pre ++ ch :: b) rest o c Hr Hcap) as [wt [Hwt S2]].
      exists (CT TWhitespace (byte_len pre, byte_len pre + byte_len (ch :: b)) :: wt).
      split; [constructor; [reflexivity|exact Hwt]|].
      rewrite E. change (ch :: b ++ w2) with ((ch :: b) ++ w2).
      exact (steps_trans _ _ _ _ _ _ _ _ _ _ _ _ _ S1 S2). }
    destruct Cases as [-> | [-> | [-> | ->]]]; [apply Blank; reflexivity|apply Blank; reflexivity| |].
    + (* LF *)
      assert (S1 : steps cf pre [10] (w ++ rest) o c [(TNewline, (byte_len pre, byte_len pre + byte_len [10]))] o c).
      { eapply steps_tok; [reflexivity|apply lex1_lf|reflexivity|reflexivity|apply cap_ok; exact Hcap]. }
      assert (Hlen : (length w <= n)%nat) by (lia).
      destruct (IH w Hlen Hw (pre ++ [10]) rest o c Hr Hcap) as [wt [Hwt S2]].
      exists (CT TNewline (byte_len pre, byte_len pre + byte_len [10]) :: wt).
      split; [constructor; [reflexivity|exact Hwt]|].
      change (10 :: w) with ([10] ++ w). exact (steps_trans _ _ _ _ _ _ _ _ _ _ _ _ _ S1 S2).
    + (* CR, CR LF *)
      assert (Single : (match w ++ rest with d :: _ => (d =? 10) = false | [] => True end) ->
                exists wt, wsf wt /\ steps cf pre (13 :: w) rest o c (cstoks wt) o c).
      { intros Hd.
        assert (L1 : lex1 cf 13 (w ++ rest) = (LOk TNewline, [13], w ++ rest)).
        { rewrite lex1_cr by exact F3. destruct (w ++ rest) as [|d x]; [reflexivity|]. rewrite Hd. reflexivity. }
        assert (S1 : steps cf pre [13] (w ++ rest) o c [(TNewline, (byte_len pre, byte_len pre + byte_len [13]))] o c).
        { eapply steps_tok; [reflexivity|exact L1|reflexivity|reflexivity|apply cap_ok; exact Hcap]. }
        assert (Hlen : (length w <= n)%nat) by (lia).
      destruct (IH w Hlen Hw (pre ++ [13]) rest o c Hr Hcap) as [wt [Hwt S2]].
        exists (CT TNewline (byte_len pre, byte_len pre + byte_len [13]) :: wt).
        split; [constructor; [reflexivity|exact Hwt]|].
        change (13 :: w) with ([13] ++ w). exact (steps_trans _ _ _ _ _ _ _ _ _ _ _ _ _ S1 S2). }
      destruct Hw as [|d w' Hd Hw'].
      * apply Single. cbn [app]. destruct rest as [|x rest']; [exact I|]. cbn in Hr.
        unfold nonws, is_ws_char in Hr. apply orb_false_iff in Hr. destruct Hr as [Hr _].
        apply orb_false_iff in Hr. destruct Hr as [_ Hr]. exact Hr.
      * destruct (d =? 10) eqn:Ed; [|apply Single; cbn [app]; exact Ed].
        apply N.eqb_eq in Ed. subst d.
        assert (L1 : lex1 cf 13 ((10 :: w') ++ rest) = (LOk TNewline, [13; 10], w' ++ rest)).
        { rewrite lex1_cr by exact F3. reflexivity. }
        assert (S1 : steps cf pre [13; 10] (w' ++ rest) o c
                       [(TNewline, (byte_len pre, byte_len pre + byte_len [13; 10]))] o c).
        { eapply steps_tok; [reflexivity|exact L1|reflexivity|reflexivity|apply cap_ok; exact Hcap]. }
        assert (Hlen : (length w' <= n)%nat) by (cbn [length] in Hn; lia).
      destruct (IH w' Hlen Hw' (pre ++ [13; 10]) rest o c Hr Hcap) as [wt [Hwt S2]].
        exists (CT TNewline (byte_len pre, byte_len pre + byte_len [13; 10]) :: wt).
        split; [constructor; [reflexivity|exact Hwt]|].
        change (13 :: 10 :: w') with ([13; 10] ++ w'). exact (steps_trans _ _ _ _ _ _ _ _ _ _ _ _ _ S1 S2).
Qed.

Lemma steps_ws' cf : f3_cr_newline cf = true -> forall w, ws w ->
  forall pre rest o c, hd_in nonws rest -> o <= c + 256 ->
  exists wt, wsf wt /\ steps cf pre w rest o c (cstoks wt) o c.
Proof. intros F3 w Hw. apply (steps_ws cf F3 (length w) w (le_n _) Hw). Qed.

(* ---------- single-token steps ---------- *)
Lemma steps_literal cf pre (w : list char) t rest o c :
  (w = w_null /\ t = TNull) \/ (w = w_true /\ t = TTrue) \/ (w = w_false /\ t = TFalse) ->
  hd_in delim rest -> o <= c + 256 ->
  steps cf pre w rest o c [(t, (byte_len pre, byte_len pre + byte_len w))] o c.
Proof.
  intros Hw Hr Hcap. destruct (lex1_literal cf w t rest Hw Hr) as [ch [r [E L1]]].
  eapply steps_tok; [exact E|exact L1| | |apply cap_ok; exact Hcap];
    destruct Hw as [[_ ->]|[[_ ->]|[_ ->]]]; reflexivity.
Qed.

Lemma steps_number cf pre n rest o c : number_lit n -> hd_in delim rest -> o <= c + 256 ->
  steps cf pre n rest o c [(TNumber, (byte_len pre, byte_len pre + byte_len n))] o c.
Proof.
  intros Hn Hr Hcap. destruct (lex1_number_lit cf n rest Hn Hr) as [ch [r [E L1]]].
  eapply steps_tok; [exact E|exact L1|reflexivity|reflexivity|apply cap_ok; exact Hcap].
Qed.

Lemma steps_string cf pre k body rest o c : string_lit k body -> o <= c + 256 ->
  steps cf pre k rest o c [(TString, (byte_len pre, byte_len pre + byte_len k))] o c.
Proof.
  intros Hk Hcap. destruct Hk as [body Hb].
  eapply (steps_tok cf pre (34 :: body ++ [34]) rest o c TString o c 34 (body ++ 34 :: rest)).
  - cbn [app]. rewrite <- app_assoc. reflexivity.
  - rewrite lex1_string, (scan_string_complete body Hb rest). reflexivity.
  - apply check_string_complete. exact Hb.
  - reflexivity.
  - apply cap_ok. exact Hcap.
Qed.

Lemma steps_punct cf pre (ch : char) t rest o c o' c' : punct ch = Some t ->
  bracket_delta t o c = (o', c') -> o' <= c' + 256 ->
  steps cf pre [ch] rest o c [(t, (byte_len pre, byte_len pre + byte_len [ch]))] o' c'.
Proof.
  intros Hp Hb Hcap.
  eapply (steps_tok cf pre [ch] rest o c t o' c' ch rest); [reflexivity|apply lex1_punct; exact Hp| |exact Hb|apply cap_ok; exact Hcap].
  unfold punct in Hp. repeat (destruct (ch =? _); [inversion Hp; reflexivity|]). discriminate Hp.
Qed.

Lemma key_at_string src pre k body rest : string_lit k body -> src = pre ++ k ++ rest ->
  key_at src (byte_len pre, byte_len pre + byte_len k) (raw_key body).
Proof.
  intros Hk ->. destruct Hk as [body _]. exists body. split; [reflexivity|].
  exists pre, rest. cbn [fst snd]. repeat split.
Qed.

(* ---------- values ---------- *)
Scheme value_mind := Minimality for value Sort Prop
  with elements_mind := Minimality for elements Sort Prop
  with members_mind := Minimality for members Sort Prop.
Combined Scheme value_mutind from value_mind, elements_mind, members_mind.

Definition ldepth (l : list json) : nat := fold_right (fun e n => Nat.max (jdepth e) n) O l.
Definition mdepth (m : list (key * json)) : nat := fold_right (fun kv n => Nat.max (jdepth (snd kv)) n) O m.

Lemma value_head v d : value v d -> exists ch r, v = ch :: r /\ nonws ch.
Proof.
  intros H. destruct H as [| | |s Hn|s body Hs|w _|s l _|w _|s m _];
    try (eexists; eexists; split; [reflexivity|reflexivity]).
  - destruct (number_head s Hn) as [ch [r [-> Hc]]]. exists ch, r. split; [reflexivity|].
    destruct (numhead_tests ch Hc) as [A [B [C _]]]. unfold nonws, is_ws_char.
    unfold is_blank in A. rewrite B, C. apply orb_false_iff in A. destruct A as [-> ->]. reflexivity.
  - destruct Hs. eexists; eexists; split; [reflexivity|reflexivity].
Qed.

Lemma hd_nonws_value v d x : value v d -> hd_in nonws (v ++ x).
Proof. intros H. destruct (value_head v d H) as [ch [r [-> Hc]]]. exact Hc. Qed.

Lemma hd_nonws_string k body x : string_lit k body -> hd_in nonws (k ++ x).
Proof. intros H. destruct H. reflexivity. Qed.

Ltac assoc := repeat (rewrite <- app_assoc; cbn [app]); reflexivity.

Ltac chain A B S :=
  let H := fresh in
  pose proof (steps_trans' _ _ _ _ _ _ _ _ _ _ _ _ _ _ _ A B) as H;
  match type of H with
  | ?e1 -> ?e2 -> _ =>
      let E1 := fresh in let E2 := fresh in
      assert (E1 : e1) by assoc; assert (E2 : e2) by assoc; pose proof (H E1 E2) as S; clear H E1 E2
  end.

Section LexValue.
  Variable cf : cfg.
  Hypothesis F3 : f3_cr_newline cf = true.

  Definition Pv (v : list char) (d : json) : Prop :=
    forall src pre rest o c, src = pre ++ v ++ rest -> hd_in delim rest ->
      o + N.of_nat (jdepth d) <= c + 256 ->
      exists t n, jv src d t /\ steps cf pre v rest o c (ctoks t) (o + n) (c + n).

  Definition Pe (s : list char) (l : list json) : Prop :=
    forall src pre rest o c, src = pre ++ s ++ 93 :: rest ->
      o + N.of_nat (ldepth l) <= c + 256 ->
      exists w ks n, wsf w /\ jels src l ks /\
        steps cf pre s (93 :: rest) o c (cstoks (w ++ ks)) (o + n) (c + n).

  Definition Pm (s : list char) (m : list (key * json)) : Prop :=
    forall src pre rest o c, src = pre ++ s ++ 125 :: rest ->
      o + N.of_nat (mdepth m) <= c + 256 ->
      exists w ks n, wsf w /\ jmems src m ks /\
        steps cf pre s (125 :: rest) o c (cstoks (w ++ ks)) (o + n) (c + n).

  Lemma leaf_done src d t pre v rest o c ts :
    jv src d t -> ctoks t = ts -> steps cf pre v rest o c ts o c ->
    exists t n, jv src d t /\ steps cf pre v rest o c (ctoks t) (o + n) (c + n).
  Proof. intros J E S. exists t, 0. rewrite !N.add_0_r, E. split; assumption. Qed.

  (* opening bracket, whitespace, closing bracket *)
  Lemma lex_empty (ob cb : char) to tc w pre rest o c :
    punct ob = Some to -> punct cb = Some tc -> nonws cb ->
    (forall o c, bracket_delta to o c = (o + 1, c)) -> (forall o c, bracket_delta tc o c = (o, c + 1)) ->
    ws w -> o + 1 <= c + 256 ->
    exists sp1 wt sp2, wsf wt /\
      steps cf pre (ob :: w ++ [cb]) rest o c (cstoks (CT to sp1 :: wt ++ [CT tc sp2])) (o + 1) (c + 1).
  Proof.
    intros Po Pc Hcb Bo Bc Hw Hd.
    assert (S1 : steps cf pre [ob] (w ++ cb :: rest) o c [(to, (byte_len pre, byte_len pre + byte_len [ob]))] (o + 1) c).
    { apply steps_punct; [exact Po|apply Bo|lia]. }
    destruct (steps_ws' cf F3 w Hw (pre ++ [ob]) (cb :: rest) (o + 1) c) as [wt [Hwt S2]]; [exact Hcb|lia|].
    assert (S3 : steps cf ((pre ++ [ob]) ++ w) [cb] rest (o + 1) c
                   [(tc, (byte_len ((pre ++ [ob]) ++ w), byte_len ((pre ++ [ob]) ++ w) + byte_len [cb]))] (o + 1) (c + 1)).
    { apply steps_punct; [exact Pc|apply Bc|lia]. }
    chain S1 S2 S12. chain S12 S3 SS.
    eexists. exists wt. eexists. split; [exact Hwt|].
    eapply steps_eq; [exact SS|assoc| |reflexivity|reflexivity].
    rewrite cstoks_cons, cstoks_app. cbn [ctoks cstoks flat_map app]. rewrite ?app_nil_r. assoc.
  Qed.

  (* opening bracket, non-empty body, closing bracket *)
  Lemma lex_body (ob cb : char) to tc s pre rest o c wb ksb n :
    punct ob = Some to -> punct cb = Some tc ->
    (forall o c, bracket_delta to o c = (o + 1, c)) -> (forall o c, bracket_delta tc o c = (o, c + 1)) ->
    o + 1 <= c + 256 ->
    steps cf (pre ++ [ob]) s (cb :: rest) (o + 1) c (cstoks (wb ++ ksb)) (o + 1 + n) (c + n) ->
    exists sp1 sp2,
      steps cf pre (ob :: s ++ [cb]) rest o c (cstoks (CT to sp1 :: wb ++ ksb ++ [CT tc sp2])) (o + (n + 1)) (c + (n + 1)).
  Proof.
    intros Po Pc Bo Bc Hd S2.
    assert (S1 : steps cf pre [ob] (s ++ cb :: rest) o c [(to, (byte_len pre, byte_len pre + byte_len [ob]))] (o + 1) c).
    { apply steps_punct; [exact Po|apply Bo|lia]. }
    assert (S3 : steps cf ((pre ++ [ob]) ++ s) [cb] rest (o + 1 + n) (c + n)
                   [(tc, (byte_len ((pre ++ [ob]) ++ s), byte_len ((pre ++ [ob]) ++ s) + byte_len [cb]))]
                   (o + 1 + n) (c + n + 1)).
    { apply steps_punct; [exact Pc|apply Bc|lia]. }
    chain S1 S2 S12. chain S12 S3 SS.
    eexists. eexists.
    eapply steps_eq; [exact SS|assoc| |lia|lia].
    rewrite cstoks_cons, !cstoks_app. cbn [ctoks cstoks flat_map app]. rewrite ?app_nil_r, ?cstoks_app. assoc.
  Qed.

  (* ws value ws *)
  Lemma lex_padded w1 v d w2 src pre rest o c : ws w1 -> value v d -> Pv v d -> ws w2 ->
    src = pre ++ (w1 ++ v ++ w2) ++ rest -> hd_in delim rest -> hd_in nonws rest ->
    o + N.of_nat (jdepth d) <= c + 256 ->
    exists wt1 t wt2 n, wsf wt1 /\ jv src d t /\ wsf wt2 /\
      steps cf pre (w1 ++ v ++ w2) rest o c (cstoks (wt1 ++ t :: wt2)) (o + n) (c + n).
  Proof.
    intros Hw1 Hv IHv Hw2 Hsrc Hr Hr' Hd.
    destruct (steps_ws' cf F3 w1 Hw1 pre (v ++ w2 ++ rest) o c) as [wt1 [Hwt1 S1]];
      [apply (hd_nonws_value v d _ Hv)|lia|].
    destruct (IHv src (pre ++ w1) (w2 ++ rest) o c) as [t [n [Ht S2]]]; [rewrite Hsrc; assoc| |lia|].
    { destruct Hw2 as [|x r Hx _]; [exact Hr|]. cbn. unfold delim, is_delim. rewrite Hx. reflexivity. }
    destruct (steps_ws' cf F3 w2 Hw2 ((pre ++ w1) ++ v) rest (o + n) (c + n)) as [wt2 [Hwt2 S3]];
      [exact Hr'|lia|].
    chain S1 S2 S12. chain S12 S3 SS.
    exists wt1, t, wt2, n. repeat split; try assumption.
    eapply steps_eq; [exact SS|assoc| |reflexivity|reflexivity].
    rewrite cstoks_app, cstoks_cons. assoc.
  Qed.

  Ltac toks :=
    unfold cstoks, member_ct in *;
    repeat (rewrite flat_map_app || (progress cbn [flat_map ctoks]));
    rewrite ?app_nil_r; assoc.

  (* ws key ws colon *)
  Lemma lex_key w1 k body w2 src pre rest o c : ws w1 -> string_lit k body -> ws w2 ->
    src = pre ++ (w1 ++ k ++ w2 ++ [58]) ++ rest -> o <= c + 256 ->
    exists wt1 spk wt2 spc, wsf wt1 /\ key_at src spk (raw_key body) /\ wsf wt2 /\
      steps cf pre (w1 ++ k ++ w2 ++ [58]) rest o c
        (cstoks (wt1 ++ CT TString spk :: wt2 ++ [CT TColon spc])) o c.
  Proof.
    intros Hw1 Hk Hw2 Hsrc Hd.
    destruct (steps_ws' cf F3 w1 Hw1 pre (k ++ w2 ++ 58 :: rest) o c) as [wt1 [Hwt1 S1]];
      [apply (hd_nonws_string k body _ Hk)|lia|].
    pose proof (steps_string cf (pre ++ w1) k body (w2 ++ 58 :: rest) o c Hk Hd) as S2.
    destruct (steps_ws' cf F3 w2 Hw2 ((pre ++ w1) ++ k) (58 :: rest) o c) as [wt2 [Hwt2 S3]];
      [reflexivity|lia|].
    assert (S4 : steps cf (((pre ++ w1) ++ k) ++ w2) [58] rest o c
                   [(TColon, (byte_len (((pre ++ w1) ++ k) ++ w2), byte_len (((pre ++ w1) ++ k) ++ w2) + byte_len [58]))] o c).
    { apply steps_punct; [reflexivity|reflexivity|lia]. }
    chain S1 S2 S12. chain S12 S3 S123. chain S123 S4 SS.
    exists wt1. eexists. exists wt2. eexists. split; [exact Hwt1|]. split; [|split; [exact Hwt2|]].
    - apply (key_at_string src (pre ++ w1) k body (w2 ++ 58 :: rest) Hk). rewrite Hsrc. assoc.
    - eapply steps_eq; [exact SS|assoc| |reflexivity|reflexivity]. toks.
  Qed.

  Lemma lex_all : (forall v d, value v d -> Pv v d) /\ (forall s l, elements s l -> Pe s l)
                  /\ (forall s m, members s m -> Pm s m).
  Proof.
    apply value_mutind.
    - (* null *) intros src pre rest o c Hsrc Hr Hd.
      eapply leaf_done; [apply jv_null|reflexivity|].
      apply steps_literal; [left; split; reflexivity|exact Hr|lia].
    - intros src pre rest o c Hsrc Hr Hd.
      eapply leaf_done; [apply jv_true|reflexivity|].
      apply steps_literal; [right; left; split; reflexivity|exact Hr|lia].
    - intros src pre rest o c Hsrc Hr Hd.
      eapply leaf_done; [apply jv_false|reflexivity|].
      apply steps_literal; [right; right; split; reflexivity|exact Hr|lia].
    - intros s Hn src pre rest o c Hsrc Hr Hd.
      eapply leaf_done; [apply jv_num|reflexivity|]. apply steps_number; [exact Hn|exact Hr|lia].
    - intros s body Hs src pre rest o c Hsrc Hr Hd.
      eapply leaf_done; [apply jv_str|reflexivity|]. eapply steps_string; [exact Hs|lia].
    - (* [ ws ] *)
      intros w Hw src pre rest o c Hsrc Hr Hd. cbn [jdepth fold_right] in Hd.
      destruct (lex_empty 91 93 TLBrak TRBrak w pre rest o c) as [sp1 [wt [sp2 [Hwt SS]]]];
        try reflexivity; [exact Hw|lia|].
      eexists. exists 1. split; [apply (jv_arr0 src sp1 wt sp2 Hwt)|exact SS].
    - (* [ elements ] *)
      intros s l He IH src pre rest o c Hsrc Hr Hd. cbn [jdepth] in Hd. fold (ldepth l) in Hd.
      destruct (IH src (pre ++ [91]) rest (o + 1) c) as [w [ks [n [Hw [Hks S2]]]]]; [rewrite Hsrc; assoc|lia|].
      destruct (lex_body 91 93 TLBrak TRBrak s pre rest o c w ks n) as [sp1 [sp2 SS]];
        try reflexivity; [lia|exact S2|].
      eexists. exists (n + 1). split; [apply (jv_arr src sp1 w l ks sp2 Hw Hks)|exact SS].
    - (* { ws } *)
      intros w Hw src pre rest o c Hsrc Hr Hd. cbn [jdepth fold_right] in Hd.
      destruct (lex_empty 123 125 TLBrace TRBrace w pre rest o c) as [sp1 [wt [sp2 [Hwt SS]]]];
        try reflexivity; [exact Hw|lia|].
      eexists. exists 1. split; [apply (jv_obj0 src sp1 wt sp2 Hwt)|exact SS].
    - (* { members } *)
      intros s m He IH src pre rest o c Hsrc Hr Hd. cbn [jdepth] in Hd. fold (mdepth m) in Hd.
      destruct (IH src (pre ++ [123]) rest (o + 1) c) as [w [ks [n [Hw [Hks S2]]]]]; [rewrite Hsrc; assoc|lia|].
      destruct (lex_body 123 125 TLBrace TRBrace s pre rest o c w ks n) as [sp1 [sp2 SS]];
        try reflexivity; [lia|exact S2|].
      eexists. exists (n + 1). split; [apply (jv_obj src sp1 w m ks sp2 Hw Hks)|exact SS].
    - (* one element *)
      intros w1 v d w2 Hw1 Hv IHv Hw2 src pre rest o c Hsrc Hd. cbn [ldepth fold_right] in Hd.
      destruct (lex_padded w1 v d w2 src pre (93 :: rest) o c Hw1 Hv IHv Hw2 Hsrc)
        as [wt1 [t [wt2 [n [Hwt1 [Ht [Hwt2 SS]]]]]]]; [reflexivity|reflexivity|lia|].
      exists wt1, (t :: wt2), n. split; [exact Hwt1|]. split; [apply jels_one; assumption|exact SS].
    - (* element , elements *)
      intros w1 v d w2 s l Hw1 Hv IHv Hw2 Hs IHs src pre rest o c Hsrc Hd. cbn [ldepth fold_right] in Hd.
      fold (ldepth l) in Hd.
      destruct (lex_padded w1 v d w2 src pre (44 :: s ++ 93 :: rest) o c Hw1 Hv IHv Hw2)
        as [wt1 [t [wt2 [n [Hwt1 [Ht [Hwt2 S1]]]]]]]; [rewrite Hsrc; assoc|reflexivity|reflexivity|lia|].
      assert (S2 : steps cf (pre ++ w1 ++ v ++ w2) [44] (s ++ 93 :: rest) (o + n) (c + n)
                     [(TComma, (byte_len (pre ++ w1 ++ v ++ w2), byte_len (pre ++ w1 ++ v ++ w2) + byte_len [44]))]
                     (o + n) (c + n)).
      { apply steps_punct; [reflexivity|reflexivity|lia]. }
      destruct (IHs src ((pre ++ w1 ++ v ++ w2) ++ [44]) rest (o + n) (c + n)) as [w' [ks [n' [Hw' [Hks S3]]]]];
        [rewrite Hsrc; assoc|lia|].
      chain S1 S2 S12. chain S12 S3 SS.
      exists wt1. eexists. exists (n + n'). split; [exact Hwt1|]. split; [match type of S2 with steps _ _ _ _ _ _ [(_, ?sp)] _ _ => apply (jels_cons src d t wt2 sp w' l ks Ht Hwt2 Hw' Hks) end|].
      eapply steps_eq; [exact SS|assoc| |lia|lia]. toks.
    - (* one member *)
      intros w1 k body w2 w3 v d w4 Hw1 Hk Hw2 Hw3 Hv IHv Hw4 src pre rest o c Hsrc Hd.
      cbn [mdepth fold_right snd] in Hd.
      destruct (lex_key w1 k body w2 src pre (w3 ++ v ++ w4 ++ 125 :: rest) o c Hw1 Hk Hw2)
        as [wt1 [spk [wt2 [spc [Hwt1 [Hkey [Hwt2 S1]]]]]]]; [rewrite Hsrc; assoc|lia|].
      destruct (lex_padded w3 v d w4 src (pre ++ w1 ++ k ++ w2 ++ [58]) (125 :: rest) o c Hw3 Hv IHv Hw4)
        as [wt3 [t [wt4 [n [Hwt3 [Ht [Hwt4 S2]]]]]]]; [rewrite Hsrc; assoc|reflexivity|reflexivity|lia|].
      chain S1 S2 SS.
      exists wt1, (member_ct spk wt2 spc wt3 t :: wt4), n. split; [exact Hwt1|].
      split; [apply jmems_one; assumption|].
      eapply steps_eq; [exact SS|assoc| |reflexivity|reflexivity]. toks.
    - (* member , members *)
      intros w1 k body w2 w3 v d w4 s m Hw1 Hk Hw2 Hw3 Hv IHv Hw4 Hs IHs src pre rest o c Hsrc Hd.
      cbn [mdepth fold_right snd] in Hd. fold (mdepth m) in Hd.
      destruct (lex_key w1 k body w2 src pre (w3 ++ v ++ w4 ++ 44 :: s ++ 125 :: rest) o c Hw1 Hk Hw2)
        as [wt1 [spk [wt2 [spc [Hwt1 [Hkey [Hwt2 S1]]]]]]]; [rewrite Hsrc; assoc|lia|].
      destruct (lex_padded w3 v d w4 src (pre ++ w1 ++ k ++ w2 ++ [58]) (44 :: s ++ 125 :: rest) o c Hw3 Hv IHv Hw4)
        as [wt3 [t [wt4 [n [Hwt3 [Ht [Hwt4 S2]]]]]]]; [rewrite Hsrc; assoc|reflexivity|reflexivity|lia|].
      set (p3 := (pre ++ w1 ++ k ++ w2 ++ [58]) ++ w3 ++ v ++ w4) in *.
      assert (S3 : steps cf p3 [44] (s ++ 125 :: rest) (o + n) (c + n)
                     [(TComma, (byte_len p3, byte_len p3 + byte_len [44]))] (o + n) (c + n)).
      { apply steps_punct; [reflexivity|reflexivity|lia]. }
      destruct (IHs src (p3 ++ [44]) rest (o + n) (c + n)) as [w' [ks [n' [Hw' [Hks S4]]]]];
        [unfold p3; rewrite Hsrc; assoc|lia|].
      unfold p3 in *. clear p3.
      chain S1 S2 S12. chain S12 S3 S123. chain S123 S4 SS.
      exists wt1. eexists. exists (n + n'). split; [exact Hwt1|].
      split; [match type of S3 with steps _ _ _ _ _ _ [(_, ?sp)] _ _ => apply (jmems_cons src (raw_key body) d spk wt2 spc wt3 t wt4 sp w' m ks); assumption end|].
      eapply steps_eq; [exact SS|assoc| |lia|lia]. toks.
  Qed.

  (* ---------- the whole text ---------- *)
  Theorem lex_complete s d : json_text s d -> (jdepth d <= 256)%nat ->
    exists t, jfile s d t /\
      lex cf s = {| l_toks := ctoks t; l_diags := []; l_status := LDone |}.
  Proof.
    intros Hj Hd. destruct Hj as [w1 v d w2 Hw1 Hv Hw2].
    destruct lex_all as [HV _].
    destruct (lex_padded w1 v d w2 (w1 ++ v ++ w2) [] [] 0 0 Hw1 Hv (HV v d Hv) Hw2)
      as [wt1 [t [wt2 [n [Hwt1 [Ht [Hwt2 SS]]]]]]]; [cbn [app]; rewrite app_nil_r; reflexivity|exact I|exact I|lia|].
    exists (CR RFile (wt1 ++ t :: wt2)). split; [apply jfile_intro; assumption|].
    unfold steps in SS. cbn [byte_len] in SS. rewrite app_nil_r in SS.
    unfold lex. fold (lexn cf 0 (w1 ++ v ++ w2) 0 0). rewrite SS, lexn_nil. unfold lapp. cbn [l_toks l_diags l_status].
    rewrite app_nil_r. reflexivity.
  Qed.
End LexValue.
