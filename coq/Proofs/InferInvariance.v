(* InferInvariance.v — C07 at tree level: [infer_text] does not depend on the order of
   (distinctly named) members, nor on how often a same-shaped element is repeated in a
   non-empty array.  (Scalar values and lexical forms are not in [json] at all: the text
   level of C07 is the rendering correspondence.) *)
From Coq Require Import List Bool NArith Lia Permutation.
Import ListNotations.
From JS Require Import Model.Base Model.Shape Model.Sem Model.Infer
  Proofs.BaseFacts Proofs.ShapeFacts Proofs.InferFacts.

(* ---------- member order ---------- *)
Definition fresh_in (acc : list (key * shape)) (m : list (key * json)) : Prop :=
  Forall (fun kv => map_get (fst kv) acc = None) m.

Lemma fresh_insert k s acc m : ~ In k (map fst m) -> fresh_in acc m -> fresh_in (map_insert k s acc) m.
Proof.
  unfold fresh_in. rewrite !Forall_forall. intros Hn H kv Hin. rewrite map_get_insert.
  destruct (key_eqb (fst kv) k) eqn:E; [|apply H; exact Hin].
  apply key_eqb_eq in E. exfalso. apply Hn. rewrite <- E. apply in_map. exact Hin.
Qed.

Lemma insert_swap k1 s1 k2 s2 (acc : list (key * shape)) : k1 <> k2 -> keys_sorted acc = true ->
  map_insert k1 s1 (map_insert k2 s2 acc) = map_insert k2 s2 (map_insert k1 s1 acc).
Proof.
  intros Hne Hs. apply map_ext; try (repeat apply keys_sorted_insert; exact Hs).
  intros k. rewrite !map_get_insert.
  destruct (key_eqb k k1) eqn:E1, (key_eqb k k2) eqn:E2; try reflexivity.
  apply key_eqb_eq in E1. apply key_eqb_eq in E2. congruence.
Qed.

(* one step of the member loop on a fresh key *)
Lemma obj_loop_fresh_step f k v r acc s : map_get k acc = None ->
  obj_loop f ((k, v) :: r) acc = Ok s ->
  exists sv, f v = Ok sv /\ obj_loop f r (map_insert k sv acc) = Ok s.
Proof.
  intros Hg H. cbn [obj_loop] in H. destruct (f v) as [sv| |] eqn:E; cbn [obind] in H; try discriminate.
  rewrite Hg in H. exists sv. split; [reflexivity|exact H].
Qed.

Lemma obj_loop_fresh_step_rev f k v r acc s sv : map_get k acc = None -> f v = Ok sv ->
  obj_loop f r (map_insert k sv acc) = Ok s -> obj_loop f ((k, v) :: r) acc = Ok s.
Proof. intros Hg E H. cbn [obj_loop]. rewrite E. cbn [obind]. rewrite Hg. exact H. Qed.

Lemma obj_loop_perm f m m' : Permutation m m' ->
  forall acc s, keys_sorted acc = true -> NoDup (map fst m) -> fresh_in acc m ->
  obj_loop f m acc = Ok s -> obj_loop f m' acc = Ok s.
Proof.
  induction 1 as [|[k v] l l' Hp IH|[k1 v1] [k2 v2] l|l l' l'' Hp1 IH1 Hp2 IH2]; intros acc s Hs Hnd Hf H.
  - exact H.
  - cbn [map fst] in Hnd. inversion Hnd as [|? ? Hn Hnd']; subst. inversion Hf as [|? ? Hg Hf']; subst.
    cbn [fst] in Hg. destruct (obj_loop_fresh_step _ _ _ _ _ _ Hg H) as [sv [E H']].
    eapply obj_loop_fresh_step_rev; [exact Hg|exact E|].
    apply IH; [apply keys_sorted_insert; exact Hs|exact Hnd'|apply fresh_insert; assumption|exact H'].
  - cbn [map fst] in Hnd. inversion Hnd as [|? ? Hn2 Hnd']; subst. inversion Hnd' as [|? ? Hn1 Hnd'']; subst.
    inversion Hf as [|? ? Hg2 Hf']; subst. inversion Hf' as [|? ? Hg1 Hf'']; subst. cbn [fst] in *.
    assert (Hne : k1 <> k2) by (intro; subst; apply Hn2; left; reflexivity).
    destruct (obj_loop_fresh_step _ _ _ _ _ _ Hg2 H) as [s2 [E2 H2]].
    assert (Hg1' : map_get k1 (map_insert k2 s2 acc) = None).
    { rewrite map_get_insert. destruct (key_eqb k1 k2) eqn:E; [apply key_eqb_eq in E; contradiction|exact Hg1]. }
    destruct (obj_loop_fresh_step _ _ _ _ _ _ Hg1' H2) as [s1 [E1 H1]].
    eapply obj_loop_fresh_step_rev; [exact Hg1|exact E1|].
    eapply obj_loop_fresh_step_rev; [|exact E2|].
    + rewrite map_get_insert. destruct (key_eqb k2 k1) eqn:E; [apply key_eqb_eq in E; congruence|exact Hg2].
    + rewrite <- insert_swap; [exact H1|exact Hne|exact Hs].
  - apply IH2; [exact Hs| | |apply IH1; assumption].
    + eapply Permutation_NoDup; [apply Permutation_map; exact Hp1|exact Hnd].
    + unfold fresh_in in *. eapply Permutation_Forall; eassumption.
Qed.

Theorem infer_perm : forall m m', Permutation m m' -> NoDup (map fst m) ->
  forall s, infer_text (JObj m) = Ok s -> infer_text (JObj m') = Ok s.
Proof.
  intros m m' Hp Hnd s H. rewrite infer_text_obj in *.
  eapply obj_loop_perm; [exact Hp|reflexivity|exact Hnd| |exact H].
  unfold fresh_in. apply Forall_forall. intros; reflexivity.
Qed.

(* the same with the boolean duplicate test of Model/Sem.v *)
Lemma nodup_keys_NoDup m : nodup_keys (JObj m) = true -> NoDup (map fst m).
Proof.
  induction m as [|[k v] r IH]; intros H; [constructor|].
  cbn in H. apply andb_true_iff in H. destruct H as [H Hr]. apply andb_true_iff in H. destruct H as [Hk Hv].
  cbn [map fst]. constructor; [|apply IH; exact Hr].
  intros Hin. apply in_map_iff in Hin. destruct Hin as [[k' v'] [E Hin]]. cbn in E. subst k'.
  apply negb_true_iff in Hk. unfold doc_has_key in Hk.
  assert (X : existsb (fun p => key_eqb k (fst p)) r = true).
  { apply existsb_exists. exists (k, v'). split; [exact Hin|apply key_eqb_refl]. }
  congruence.
Qed.

(* ---------- repetition of same-shaped elements ---------- *)
Lemma all_adjacent_eq_same s : forall l, Forall (fun x => x = s) l -> all_adjacent_eq l = true.
Proof.
  induction l as [|x r IH]; intros H; [reflexivity|]. inversion H as [|? ? Hx Hr]; subst.
  destruct r as [|y r']; [reflexivity|]. inversion Hr as [|? ? Hy Hr']; subst.
  cbn [all_adjacent_eq]. rewrite shape_eqb_refl. apply IH. exact Hr.
Qed.

Lemma array_text_same s es : es <> [] -> Forall (fun x => x = s) es -> array_text es = Ok (SArray s false).
Proof.
  intros Hne H. destruct es as [|e r]; [contradiction|]. inversion H as [|? ? He Hr]; subst.
  unfold array_text. cbn [nonempty]. rewrite (all_adjacent_eq_same s (s :: r) H), orb_true_r. reflexivity.
Qed.

Theorem infer_same_shape : forall l s, l <> [] -> Forall (fun e => infer_text e = Ok s) l ->
  infer_text (JArr l) = Ok (SArray s false).
Proof.
  intros l s Hne H. rewrite infer_text_arr.
  assert (E : mapM_o infer_text l = Ok (map (fun _ => s) l)).
  { apply mapM_o_of_forall2. clear Hne. induction H; cbn [map]; constructor; assumption. }
  rewrite E. cbn [obind]. apply array_text_same.
  - destruct l; [contradiction|discriminate].
  - apply Forall_forall. intros x Hin. apply in_map_iff in Hin. destruct Hin as [? [<- _]]. reflexivity.
Qed.

Theorem infer_repeat : forall d n, infer_text (JArr (repeat d (S n))) = infer_text (JArr [d]).
Proof.
  intros d n. destruct (infer_text d) as [s| |] eqn:E.
  - rewrite (infer_same_shape (repeat d (S n)) s); [|discriminate|].
    + symmetry. apply infer_same_shape; [discriminate|constructor; [exact E|constructor]].
    + apply Forall_forall. intros x Hin. apply repeat_spec in Hin. subst. exact E.
  - rewrite !infer_text_arr. cbn [repeat mapM_o]. rewrite E. reflexivity.
  - rewrite !infer_text_arr. cbn [repeat mapM_o]. rewrite E. reflexivity.
Qed.

(* two non-empty arrays whose elements all have one and the same shape get the same shape,
   whatever their lengths *)
Corollary infer_repetition_count : forall l l' s, l <> [] -> l' <> [] ->
  Forall (fun e => infer_text e = Ok s) l -> Forall (fun e => infer_text e = Ok s) l' ->
  infer_text (JArr l) = infer_text (JArr l').
Proof. intros. rewrite (infer_same_shape l s), (infer_same_shape l' s); auto. Qed.
