(* SemFacts.v — facts about the reference semantics [mem]. *)
From Coq Require Import List Bool NArith Lia.
Import ListNotations.
From JS Require Import Model.Base Model.Shape Model.Sem Proofs.BaseFacts Proofs.ShapeFacts.


Lemma forall2b_length {A B} (f : A -> B -> bool) l l' : forall2b f l l' = true -> length l = length l'.
Proof.
  revert l'. induction l as [|x r IH]; intros [|y r'] H; simpl in *; try discriminate; auto.
  apply andb_true_iff in H. destruct H as [_ H]. f_equal. auto.
Qed.

Lemma mem_tuple_fix es l :
  (fix go (es : list shape) (l : list json) {struct es} : bool :=
     match es, l with
     | [], [] => true
     | e :: es', x :: l' => mem x e && go es' l'
     | _, _ => false
     end) es l = forall2b (fun e x => mem x e) es l.
Proof. revert l. induction es as [|e r IH]; intros [|x l]; simpl; try reflexivity. rewrite IH. reflexivity. Qed.

Lemma mem_tuple l es o : mem (JArr l) (STuple es o) = forall2b (fun e x => mem x e) es l.
Proof. simpl. apply mem_tuple_fix. Qed.

Definition member_ok (c : list (key * shape)) (kv : key * json) : bool :=
  existsb (fun ks => key_eqb (fst kv) (fst ks) && mem (snd kv) (snd ks)) c.
Definition key_ok (m : list (key * json)) (ks : key * shape) : bool :=
  doc_has_key (fst ks) m || nullable (snd ks).

Lemma mem_object m c o :
  mem (JObj m) (SObject c o) = forallb (member_ok c) m && forallb (key_ok m) c.
Proof. reflexivity. Qed.

Lemma mem_oneof d vs o : mem d (SOneOf vs o) = existsb (fun v => mem d v) vs || (j_is_null d && o).
Proof. reflexivity. Qed.

Lemma mem_array_arr l t o : mem (JArr l) (SArray t o) = forallb (fun e => mem e t) l.
Proof. reflexivity. Qed.

Lemma mem_null_only d : mem d SNull = true -> d = JNull.
Proof. destruct d; simpl; intro H; congruence. Qed.

Lemma j_is_null_true d : j_is_null d = true <-> d = JNull.
Proof. destruct d; simpl; split; intro; congruence. Qed.

(* a set optional flag (or the Null shape) admits null *)
Lemma nullable_optional s : is_optional s = true -> mem JNull s = true.
Proof.
  destruct s; simpl; intro H; try rewrite H; try reflexivity.
  apply orb_true_r.
Qed.

(* changing the top flag never matters for non-null documents *)
Lemma mem_set_flag_nonnull f s d : d <> JNull -> mem d (set_flag f s) = mem d s.
Proof.
  intro Hd. destruct s; simpl; try reflexivity; destruct d; try reflexivity; try congruence.
Qed.

Lemma mem_set_flag_null f s : mem JNull (set_flag f s) = true -> f = true \/ mem JNull s = true.
Proof.
  destruct s; simpl; intro H; auto.
  apply orb_true_iff in H. destruct H as [H|H]; [right; rewrite H; reflexivity|left; exact H].
Qed.

Lemma mem_set_flag_true s d : mem d s = true -> mem d (set_flag true s) = true.
Proof.
  intro H. destruct d; try (rewrite mem_set_flag_nonnull; [exact H|discriminate]).
  destruct s; simpl in *; auto. apply orb_true_iff in H. destruct H as [H|H].
  - rewrite H. reflexivity.
  - apply orb_true_r.
Qed.

Lemma mem_as_optional s d : mem d s = true -> mem d (as_optional s) = true.
Proof. apply mem_set_flag_true. Qed.

Lemma mem_as_optional_null s : mem JNull (as_optional s) = true.
Proof. apply nullable_optional. destruct s; reflexivity. Qed.

(* widening the flag *)
Lemma mem_flag_mono s d (f g : bool) : (f = true -> g = true) ->
  mem d (set_flag f s) = true -> mem d (set_flag g s) = true.
Proof.
  intros Hfg H. destruct d; try (rewrite mem_set_flag_nonnull in *; [exact H|discriminate|discriminate]).
  destruct f.
  - rewrite Hfg by reflexivity. apply nullable_optional. destruct s; reflexivity.
  - destruct s; simpl in *; auto.
    apply orb_true_iff in H. destruct H as [H|H]; [rewrite H; reflexivity|discriminate].
Qed.

(* non-null member of s is a member of the non-optional form *)
Lemma mem_non_optional s d : d <> JNull -> mem d s = true -> mem d (as_non_optional s) = true.
Proof. intros Hd H. unfold as_non_optional. rewrite mem_set_flag_nonnull; assumption. Qed.

Lemma mem_non_optional_incl s d : mem d (as_non_optional s) = true -> mem d s = true.
Proof.
  intro H. rewrite <- (set_flag_same' s) . eapply mem_flag_mono; [|exact H]. discriminate.
Qed.

(* null is in s either through the flag/Null shape, or through the non-optional form *)
Lemma mem_null_cases s : mem JNull s = true -> is_optional s = true \/ mem JNull (as_non_optional s) = true.
Proof.
  destruct s; simpl; intro H; auto.
  apply orb_true_iff in H. destruct H as [H|H]; [right; rewrite H; reflexivity|left; exact H].
Qed.

Lemma mem_oneof_intro d v vs o : In v vs -> mem d v = true -> mem d (SOneOf vs o) = true.
Proof.
  intros Hin H. rewrite mem_oneof. apply orb_true_iff. left.
  apply existsb_exists. exists v. split; assumption.
Qed.

Lemma mem_oneof_elim d vs o : mem d (SOneOf vs o) = true ->
  (exists v, In v vs /\ mem d v = true) \/ (d = JNull /\ o = true).
Proof.
  rewrite mem_oneof. intro H. apply orb_true_iff in H. destruct H as [H|H].
  - left. apply existsb_exists in H. exact H.
  - right. apply andb_true_iff in H. destruct H as [H1 H2]. apply j_is_null_true in H1. auto.
Qed.

Lemma doc_has_key_In k m : doc_has_key k m = true <-> exists v, In (k, v) m.
Proof.
  unfold doc_has_key. rewrite existsb_exists. split.
  - intros [[k' v] [Hin E]]. simpl in E. apply key_eqb_eq in E. subst. exists v. exact Hin.
  - intros [v Hin]. exists (k, v). split; [exact Hin|]. simpl. apply key_eqb_refl.
Qed.
