(* MergerFacts.v — structure of merger: the object loop as a lookup function, the variant
   sets of the OneOf-producing arms, and preservation of the container invariant wf. *)
From Coq Require Import List Bool NArith Lia.
Import ListNotations.
From JS Require Import Model.Base Model.Shape Model.Subset Model.Merger
  Proofs.BaseFacts Proofs.ShapeFacts.

(* ---------- instances of the generic sorted-set lemmas ---------- *)
Lemma sset_sorted_insert x l : sorted cmp l = true -> sorted cmp (sset_insert x l) = true.
Proof. apply sorted_insert; first [exact cmp_eq|exact cmp_refl|exact cmp_opp|exact cmp_trans]. Qed.

Lemma sset_insert_present x l : sorted cmp l = true -> In x l -> sset_insert x l = l.
Proof. apply set_insert_present; first [exact cmp_eq|exact cmp_refl|exact cmp_opp|exact cmp_trans]. Qed.

Lemma sset_ext l l' : sorted cmp l = true -> sorted cmp l' = true ->
  (forall x, In x l <-> In x l') -> l = l'.
Proof. apply sorted_ext; first [exact cmp_eq|exact cmp_refl|exact cmp_opp|exact cmp_trans]. Qed.

Lemma sset_sorted_union l extra : sorted cmp l = true -> sorted cmp (sset_union l extra) = true.
Proof. apply sorted_union; first [exact cmp_eq|exact cmp_refl|exact cmp_opp|exact cmp_trans]. Qed.

(* ---------- the object/object loop ---------- *)
Fixpoint obj_merge_go (f : shape -> shape -> shape) (c other acc : list (key * shape))
  : list (key * shape) :=
  match c with
  | [] => fold_left (fun acc kv => map_insert (fst kv) (as_optional (snd kv)) acc) other acc
  | (k, v) :: r =>
      match map_get k other with
      | Some ov => obj_merge_go f r (map_remove k other) (map_insert k (f v ov) acc)
      | None => obj_merge_go f r other (map_insert k (as_optional v) acc)
      end
  end.

Lemma merger_object_object c o c' o' :
  merger (SObject c o) (SObject c' o') = SObject (obj_merge_go merger c c' []) (o || o').
Proof.
  simpl. f_equal. generalize (@nil (key * shape)). revert c'.
  induction c as [|[k v] r IH]; intros other acc; simpl; [reflexivity|].
  destruct (map_get k other); apply IH.
Qed.

Lemma fold_insert_get k other : keys_sorted other = true -> forall acc,
  map_get k (fold_left (fun acc kv => map_insert (fst kv) (as_optional (snd kv)) acc) other acc) =
  match map_get k other with Some ov => Some (as_optional ov) | None => map_get k acc end.
Proof.
  induction other as [|[k1 v1] r IH]; intros Hs acc; simpl; [reflexivity|].
  apply keys_sorted_cons in Hs. destruct Hs as [Ha Hs].
  rewrite (IH Hs). rewrite map_get_insert.
  destruct (key_eqb k k1) eqn:E.
  - apply key_eqb_eq in E. subst k1. rewrite (keys_above_get _ _ Ha). reflexivity.
  - reflexivity.
Qed.

Lemma fold_insert_sorted other : forall acc, keys_sorted acc = true ->
  keys_sorted (fold_left (fun acc kv => map_insert (fst kv) (as_optional (snd kv)) acc) other acc) = true.
Proof.
  induction other as [|[k1 v1] r IH]; intros acc Hs; simpl; [exact Hs|].
  apply IH. apply keys_sorted_insert. exact Hs.
Qed.

Lemma obj_merge_go_get f k c : keys_sorted c = true -> forall other acc, keys_sorted other = true ->
  map_get k (obj_merge_go f c other acc) =
  match map_get k c with
  | Some v => match map_get k other with Some ov => Some (f v ov) | None => Some (as_optional v) end
  | None => match map_get k other with Some ov => Some (as_optional ov) | None => map_get k acc end
  end.
Proof.
  induction c as [|[k1 v1] r IH]; intros Hs other acc Ho.
  - simpl. apply fold_insert_get. exact Ho.
  - apply keys_sorted_cons in Hs. destruct Hs as [Ha Hs]. simpl.
    destruct (map_get k1 other) as [ov|] eqn:G.
    + rewrite (IH Hs) by (apply keys_sorted_remove; exact Ho).
      rewrite (map_get_remove _ _ _ Ho), map_get_insert.
      destruct (key_eqb k k1) eqn:E.
      * apply key_eqb_eq in E. subst k1. rewrite (keys_above_get _ _ Ha), G. reflexivity.
      * reflexivity.
    + rewrite (IH Hs) by exact Ho. rewrite map_get_insert.
      destruct (key_eqb k k1) eqn:E.
      * apply key_eqb_eq in E. subst k1. rewrite (keys_above_get _ _ Ha), G. reflexivity.
      * reflexivity.
Qed.

Lemma obj_merge_go_sorted f c : forall other acc, keys_sorted acc = true ->
  keys_sorted (obj_merge_go f c other acc) = true.
Proof.
  induction c as [|[k1 v1] r IH]; intros other acc Hs; simpl.
  - apply fold_insert_sorted. exact Hs.
  - destruct (map_get k1 other); apply IH; apply keys_sorted_insert; exact Hs.
Qed.

(* every value of the result comes from f, or is an optional form *)
Lemma obj_merge_go_values (P : shape -> Prop) f c : forall other acc,
  Forall (fun kv => P (snd kv)) acc ->
  Forall (fun kv => P (as_optional (snd kv))) c ->
  Forall (fun kv => P (as_optional (snd kv))) other ->
  (forall k v ov, In (k, v) c -> In (k, ov) other -> P (f v ov)) ->
  Forall (fun kv => P (snd kv)) (obj_merge_go f c other acc).
Proof.
  assert (Hins : forall k v acc, P v -> Forall (fun kv => P (snd kv)) acc ->
                                 Forall (fun kv : key * shape => P (snd kv)) (map_insert k v acc)).
  { intros k v acc Hv Hacc. induction Hacc as [|[k1 v1] r H1 Hr IH]; simpl.
    - constructor; [exact Hv|constructor].
    - destruct (cmp_key k k1).
      + constructor; [exact Hv|exact Hr].
      + constructor; [exact Hv|]. constructor; assumption.
      + constructor; [exact H1|exact IH]. }
  assert (Hrem : forall k (Q : key * shape -> Prop) l, Forall Q l -> Forall Q (map_remove k l)).
  { intros k Q l Hl. induction Hl as [|[k1 v1] r H1 Hr IH]; simpl; [constructor|].
    destruct (key_eqb k k1); [exact Hr|constructor; assumption]. }
  induction c as [|[k1 v1] r IH]; intros other acc Hacc Hc Ho Hf; simpl.
  - clear Hc Hf. revert acc Hacc. induction Ho as [|[k2 v2] r2 H2 Hr2 IH2]; intros acc Hacc; simpl; [exact Hacc|].
    apply IH2. apply Hins; assumption.
  - inversion Hc as [|? ? Hc1 Hcr]; subst. simpl in Hc1.
    destruct (map_get k1 other) as [ov|] eqn:G.
    + apply IH.
      * apply Hins; [|exact Hacc]. apply (Hf k1 v1 ov); [left; reflexivity|apply map_get_In; exact G].
      * exact Hcr.
      * apply Hrem. exact Ho.
      * intros k v ov' Hin Hin'. apply (Hf k v ov'); [right; exact Hin|].
        clear -Hin'. induction other as [|[k2 v2] r2 IHo]; simpl in *; [contradiction|].
        destruct (key_eqb k1 k2); [right; exact Hin'|].
        destruct Hin' as [Hin'|Hin']; [left; exact Hin'|right; auto].
    + apply IH; try assumption.
      * apply Hins; assumption.
      * intros k v ov' Hin Hin'. apply (Hf k v ov'); [right; exact Hin|exact Hin'].
Qed.

(* ---------- variant sets ---------- *)
Lemma null_if_In c vs y : In y (null_if c vs) <-> (c = true /\ y = SNull) \/ In y vs.
Proof.
  unfold null_if. destruct c.
  - rewrite sset_insert_In. intuition.
  - intuition. discriminate.
Qed.

Lemma null_if_sorted c vs : sorted cmp vs = true -> sorted cmp (null_if c vs) = true.
Proof. unfold null_if. destruct c; [apply sset_sorted_insert|auto]. Qed.

Lemma fold_nonopt_In y es : forall init,
  In y (fold_left (fun acc e => sset_insert (as_non_optional e) acc) es init) <->
  In y init \/ exists e, In e es /\ y = as_non_optional e.
Proof.
  induction es as [|e r IH]; intro init; simpl.
  - split; [auto|]. intros [H|[e [[] _]]]. exact H.
  - rewrite IH, sset_insert_In. split.
    + intros [[H|H]|[e' [H1 H2]]]; [right; exists e; auto|auto|right; exists e'; auto].
    + intros [H|[e' [[H1|H1] H2]]]; [auto|subst; auto|right; exists e'; auto].
Qed.

Lemma fold_nonopt_sorted es : forall init, sorted cmp init = true ->
  sorted cmp (fold_left (fun acc e => sset_insert (as_non_optional e) acc) es init) = true.
Proof.
  induction es as [|e r IH]; intros init H; simpl; [exact H|]. apply IH. apply sset_sorted_insert. exact H.
Qed.

Lemma kind_pair_In x y nul z :
  In z (null_if nul (sset_insert y (sset_insert x []))) <-> z = x \/ z = y \/ (nul = true /\ z = SNull).
Proof.
  rewrite null_if_In, sset_insert_In. simpl. intuition.
Qed.

Definition flat_variant (t z : shape) : Prop :=
  match t with
  | SOneOf vs _ => In z vs
  | _ => z = as_non_optional t
  end.

Lemma insert_flat_In t acc z : In z (insert_flat t acc) <-> flat_variant t z \/ In z acc.
Proof.
  destruct t; simpl; try (rewrite sset_insert_In; tauto).
  rewrite sset_union_In. tauto.
Qed.

Lemma insert_flat_sorted t acc : sorted cmp acc = true -> sorted cmp (insert_flat t acc) = true.
Proof. destruct t; simpl; intro H; try (apply sset_sorted_insert; exact H). apply sset_sorted_union. exact H. Qed.

Lemma tuple_array_set_In t es z :
  In z (tuple_array_set t es) <->
  flat_variant t z \/ (exists e, In e es /\ z = as_non_optional e) \/
  ((existsb is_optional es || is_optional t) = true /\ z = SNull).
Proof.
  unfold tuple_array_set. rewrite fold_nonopt_In, insert_flat_In, null_if_In. simpl. intuition.
Qed.

Lemma tuples_set_In es os z :
  In z (tuples_set es os) <->
  (exists e, In e es /\ z = as_non_optional e) \/ (exists e, In e os /\ z = as_non_optional e) \/
  ((existsb is_optional es || existsb is_optional os) = true /\ z = SNull).
Proof.
  unfold tuples_set. rewrite !fold_nonopt_In, null_if_In. simpl. intuition.
Qed.

(* ---------- wf is preserved ---------- *)
Lemma wf_oneof vs o : wf (SOneOf vs o) = true <-> sorted cmp vs = true /\ (forall v, In v vs -> wf v = true).
Proof. simpl. rewrite andb_true_iff, forallb_forall. reflexivity. Qed.

Lemma wf_object c o : wf (SObject c o) = true <->
  keys_sorted c = true /\ Forall (fun kv => wf (snd kv) = true) c.
Proof. simpl. rewrite andb_true_iff, forallb_forall, Forall_forall. reflexivity. Qed.

Lemma wf_tuple es o : wf (STuple es o) = true <-> Forall (fun e => wf e = true) es.
Proof. simpl. rewrite forallb_forall, Forall_forall. reflexivity. Qed.

Lemma wf_nonopt s : wf (as_non_optional s) = wf s.
Proof. apply wf_set_flag. Qed.
Lemma wf_opt s : wf (as_optional s) = wf s.
Proof. apply wf_set_flag. Qed.

Lemma wf_kind_pair x y nul : wf x = true -> wf y = true -> wf (kind_pair x y nul) = true.
Proof.
  intros Hx Hy. unfold kind_pair. apply wf_oneof. split.
  - apply null_if_sorted. apply sset_sorted_insert. apply sset_sorted_insert. reflexivity.
  - intros v Hv. apply kind_pair_In in Hv. destruct Hv as [->|[->|[_ ->]]]; auto.
Qed.

Lemma wf_into_oneof x o vs oo : wf x = true -> wf (SOneOf vs oo) = true -> wf (into_oneof x o vs oo) = true.
Proof.
  intros Hx Hv. apply wf_oneof in Hv. destruct Hv as [Hs Hv]. unfold into_oneof. apply wf_oneof. split.
  - apply sset_sorted_insert. apply null_if_sorted. exact Hs.
  - intros v Hin. apply sset_insert_In in Hin. destruct Hin as [->|Hin]; [rewrite wf_nonopt; exact Hx|].
    apply null_if_In in Hin. destruct Hin as [[_ ->]|Hin]; [reflexivity|auto].
Qed.

Lemma flat_variant_wf t z : wf t = true -> flat_variant t z -> wf z = true.
Proof.
  destruct t; simpl; intros Hw Hz; try (subst; reflexivity); try (subst; exact Hw).
  apply andb_true_iff in Hw. destruct Hw as [_ Hw]. rewrite forallb_forall in Hw. auto.
Qed.

Lemma wf_tuple_array t es o : wf t = true -> Forall (fun e => wf e = true) es ->
  wf (SArray (SOneOf (tuple_array_set t es) false) o) = true.
Proof.
  intros Ht Hes. change (wf (SOneOf (tuple_array_set t es) false) = true). apply wf_oneof. split.
  - unfold tuple_array_set. apply fold_nonopt_sorted. apply insert_flat_sorted. apply null_if_sorted. reflexivity.
  - intros v Hv. apply tuple_array_set_In in Hv. rewrite Forall_forall in Hes.
    destruct Hv as [Hv|[[e [He ->]]|[_ ->]]]; auto.
    + eapply flat_variant_wf; eassumption.
    + rewrite wf_nonopt. auto.
Qed.

Lemma wf_tuples_set es os o : Forall (fun e => wf e = true) es -> Forall (fun e => wf e = true) os ->
  wf (SArray (SOneOf (tuples_set es os) false) o) = true.
Proof.
  intros Hes Hos. change (wf (SOneOf (tuples_set es os) false) = true). apply wf_oneof. split.
  - unfold tuples_set. apply fold_nonopt_sorted. apply fold_nonopt_sorted. apply null_if_sorted. reflexivity.
  - intros v Hv. apply tuples_set_In in Hv. rewrite Forall_forall in Hes, Hos.
    destruct Hv as [[e [He ->]]|[[e [He ->]]|[_ ->]]]; auto; rewrite wf_nonopt; auto.
Qed.

Lemma fold_pair_cases a b v : fold_pair a b = Some v ->
  (is_subset a b = true /\ v = b) \/ (is_subset b a = true /\ v = a) \/
  (b = SNull /\ v = as_optional a) \/ (a = SNull /\ v = as_optional b).
Proof.
  unfold fold_pair. destruct (is_subset a b) eqn:E1; [intro H; inversion H; auto|].
  destruct (is_subset b a) eqn:E2; [intro H; inversion H; auto|].
  destruct (is_null b) eqn:E3; [intro H; inversion H; destruct b; try discriminate; auto|].
  destruct (is_null a) eqn:E4; [intro H; inversion H; destruct a; try discriminate; auto 6|].
  discriminate.
Qed.

Lemma fold_tuple_wf es : forall os folded, fold_tuple es os = Some folded ->
  Forall (fun e => wf e = true) es -> Forall (fun e => wf e = true) os ->
  Forall (fun e => wf e = true) folded.
Proof.
  induction es as [|e r IH]; intros [|x os] folded H Hes Hos; simpl in H; try discriminate.
  - inversion H. constructor.
  - destruct (fold_pair e x) as [v|] eqn:E; [|discriminate].
    destruct (fold_tuple r os) as [rr|] eqn:E2; [|discriminate]. inversion H. subst folded.
    inversion Hes; inversion Hos; subst. constructor; [|eapply IH; eauto].
    apply fold_pair_cases in E. destruct E as [[_ ->]|[[_ ->]|[[_ ->]|[_ ->]]]]; auto; rewrite wf_opt; auto.
Qed.

Lemma merger_scalar a b : is_scalar a = true ->
  merger a b =
  match b with
  | SNull => as_optional a
  | SOneOf vs oo => into_oneof a (is_optional a) vs oo
  | _ => if N.eqb (tag a) (tag b) then set_flag (is_optional a || is_optional b) a
         else kind_pair (as_non_optional a) (as_non_optional b) (is_optional a || is_optional b)
  end.
Proof. destruct a; try discriminate; reflexivity. Qed.

Lemma wf_merger_scalar a b : is_scalar a = true -> wf a = true -> wf b = true -> wf (merger a b) = true.
Proof.
  intros Hs Ha Hb. rewrite merger_scalar by exact Hs.
  destruct b; try (rewrite wf_opt; exact Ha); try (apply wf_into_oneof; assumption);
    (destruct (N.eqb _ _); [rewrite wf_set_flag; exact Ha|apply wf_kind_pair; rewrite wf_nonopt; assumption]).
Qed.

Theorem wf_merger : forall a b, wf a = true -> wf b = true -> wf (merger a b) = true.
Proof.
  induction a as [|o|o|o|t o IH|c o IH|vs o IH|es o IH] using shape_ind'; intros b Ha Hb.
  - simpl. rewrite wf_opt. exact Hb.
  - apply wf_merger_scalar; auto.
  - apply wf_merger_scalar; auto.
  - apply wf_merger_scalar; auto.
  - destruct b as [|o'|o'|o'|t' o'|c' o'|ws oo|os o'];
      try (apply wf_kind_pair; [exact Ha|rewrite wf_nonopt; exact Hb]).
    + exact Ha.
    + simpl. apply IH; assumption.
    + apply wf_into_oneof; assumption.
    + cbn [merger]. apply wf_tuple_array; [exact Ha|apply wf_tuple in Hb; exact Hb].
  - destruct b as [|o'|o'|o'|t' o'|c' o'|ws oo|os o'];
      try (apply wf_kind_pair; [exact Ha|rewrite wf_nonopt; exact Hb]).
    + exact Ha.
    + rewrite merger_object_object. apply wf_object in Ha. apply wf_object in Hb.
      destruct Ha as [Hs Hw], Hb as [Hs' Hw']. apply wf_object. split.
      * apply obj_merge_go_sorted. reflexivity.
      * apply (obj_merge_go_values (fun s => wf s = true)).
        -- constructor.
        -- eapply Forall_impl; [|exact Hw]. intros kv H. rewrite wf_opt. exact H.
        -- eapply Forall_impl; [|exact Hw']. intros kv H. rewrite wf_opt. exact H.
        -- intros k v ov Hin Hin'. rewrite Forall_forall in IH, Hw, Hw'.
           apply (IH (k, v) Hin); [apply (Hw (k, v) Hin)|apply (Hw' (k, ov) Hin')].
    + apply wf_into_oneof; assumption.
  - destruct b as [|o'|o'|o'|t' o'|c' o'|ws oo|os o'];
      try (cbn [merger]; apply wf_oneof in Ha; destruct Ha as [Hs Hv]; apply wf_oneof; split;
           [apply sset_sorted_insert; apply null_if_sorted; exact Hs|
            intros v Hin; apply sset_insert_In in Hin; destruct Hin as [->|Hin];
            [rewrite wf_nonopt; exact Hb|apply null_if_In in Hin; destruct Hin as [[_ ->]|Hin]; [reflexivity|auto]]]).
    + exact Ha.
    + cbn [merger]. apply wf_oneof in Ha. apply wf_oneof in Hb. destruct Ha as [Hs Hv], Hb as [Hs' Hv'].
      apply wf_oneof. split; [apply sset_sorted_union; exact Hs|].
      intros v Hin. apply sset_union_In in Hin. destruct Hin; auto.
  - destruct b as [|o'|o'|o'|t' o'|c' o'|ws oo|os o'];
      try (apply wf_kind_pair; [exact Ha|rewrite wf_nonopt; exact Hb]).
    + exact Ha.
    + cbn [merger]. apply wf_tuple_array; [exact Hb|apply wf_tuple in Ha; exact Ha].
    + apply wf_into_oneof; assumption.
    + cbn [merger]. apply wf_tuple in Ha. apply wf_tuple in Hb.
      destruct (fold_tuple es os) as [folded|] eqn:E.
      * apply wf_tuple. eapply fold_tuple_wf; eauto.
      * apply wf_tuples_set; assumption.
Qed.
