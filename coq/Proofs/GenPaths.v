(* GenPaths.v — the output path of compile_json against the path of include_json_shape!,
   and the effect-trace facts of compile_json_m (C16). *)
From Coq Require Import List Bool NArith Lia.
Import ListNotations.
From JS Require Import Model.Base Model.Shape Model.Sem Model.Gen Proofs.BaseFacts Proofs.ShapeFacts.

(* ---------- split_last_seg / split_last_dot on separator-free texts ---------- *)
Lemma no_byte_cons b c r : no_byte b (c :: r) = true -> N.eqb c b = false /\ no_byte b r = true.
Proof.
  unfold no_byte. simpl. intro H. apply andb_true_iff in H. destruct H as [H1 H2].
  split; [apply negb_true_iff in H1; exact H1 | exact H2].
Qed.

Lemma split_last_seg_plain n : no_byte 47 n = true -> split_last_seg n = ([], n).
Proof.
  induction n as [|c r IH]; intro H; [reflexivity|].
  apply no_byte_cons in H. destruct H as [Hc Hr]. simpl. rewrite (IH Hr). rewrite Hc. reflexivity.
Qed.

Lemma split_last_seg_app a n : no_byte 47 n = true ->
  split_last_seg (a ++ 47%N :: n) = (a ++ [47%N], n).
Proof.
  intro H. induction a as [|x a IH]; simpl.
  - rewrite (split_last_seg_plain n H). reflexivity.
  - rewrite IH. destruct (a ++ [47%N]) eqn:E; [destruct a; discriminate E|]. reflexivity.
Qed.

Lemma split_last_dot_plain n : no_byte 46 n = true -> split_last_dot n = None.
Proof.
  induction n as [|c r IH]; intro H; [reflexivity|].
  apply no_byte_cons in H. destruct H as [Hc Hr]. simpl. rewrite (IH Hr). rewrite Hc. reflexivity.
Qed.

Lemma with_gen_ext_plain n : no_byte 46 n = true -> with_gen_ext n = n ++ [46%N] ++ gen_ext.
Proof.
  intro H. unfold with_gen_ext, file_stem. rewrite (split_last_dot_plain n H).
  destruct (text_eqb n [46%N; 46%N]); reflexivity.
Qed.

Lemma ends_with_slash_false_join dir name c r :
  name = c :: r -> N.eqb c 47 = false -> plain_dir dir = true ->
  path_join dir name = dir ++ 47%N :: name.
Proof.
  intros -> Hc Hd. unfold path_join. rewrite Hc. unfold plain_dir in Hd.
  destruct dir as [|d dr]; [discriminate Hd|]. apply negb_true_iff in Hd. rewrite Hd. reflexivity.
Qed.

(* the macro reads exactly the file compile_json wrote, for dot-free collection names *)
Theorem paths_agree dir name :
  plain_dir dir = true -> plain_name name = true -> out_path_pre_f14 dir name = macro_path dir name.
Proof.
  intros Hd Hn. unfold plain_name in Hn. destruct name as [|c r] eqn:En; [discriminate Hn|].
  rewrite <- En in *. apply andb_true_iff in Hn. destruct Hn as [Hs Hdot].
  assert (Hc : N.eqb c 47 = false).
  { rewrite En in Hs. apply no_byte_cons in Hs. tauto. }
  unfold out_path_pre_f14. rewrite (ends_with_slash_false_join dir name c r En Hc Hd).
  rewrite (split_last_seg_app dir name Hs). rewrite (with_gen_ext_plain name Hdot).
  unfold macro_path. rewrite <- !app_assoc. reflexivity.
Qed.

(* a dotted collection name is written under a truncated file name the macro never reads *)
Definition dotted_dir : text := [47; 111]%N.          (* "/o"   *)
Definition dotted_name : text := [97; 46; 98]%N.      (* "a.b"  *)
Theorem paths_dotted_refuted :
  exists dir name, plain_dir dir = true /\ no_byte 47 name = true /\ name <> [] /\
                   out_path_pre_f14 dir name <> macro_path dir name.
Proof.
  exists dotted_dir, dotted_name. repeat split; try reflexivity; try discriminate.
Qed.

(* ---------- compile_json_m ---------- *)
Lemma read_all_no_write srcs : no_write (snd (read_all srcs)) = true.
Proof.
  induction srcs as [|[p [c|]] r IH]; simpl; try reflexivity.
  destruct (read_all r) as [x e]. simpl in *. exact IH.
Qed.

Lemma no_write_app a b : no_write (a ++ b) = no_write a && no_write b.
Proof. unfold no_write. apply forallb_app. Qed.

Lemma prints_no_write (srcs : list (text * option text)) f :
  no_write (map (fun s => EPrint (f s)) srcs) = true.
Proof. induction srcs; simpl; auto. Qed.

Section Compile.
  Context {E : Type} (infer : list text -> outcome E shape).

  (* unreadable, invalid or empty source lists (and a panic inside inference): an error and
     no write effect at all *)
  Theorem error_writes_nothing cwd od name srcs w r tr :
    compile_json_m infer cwd od name srcs w = (r, tr) ->
    (r = Err CRead \/ r = Err CInfer \/ r = Panic) -> no_write tr = true.
  Proof.
    unfold compile_json_m. pose proof (read_all_no_write srcs) as Hr.
    destruct (read_all srcs) as [[cs|] eff]; simpl in Hr.
    - destruct (infer cs) as [s|e|]; intros H Hc; inversion H; subst; clear H.
      + destruct w; destruct Hc as [Hc|[Hc|Hc]]; discriminate Hc.
      + rewrite no_write_app, prints_no_write, Hr. reflexivity.
      + rewrite no_write_app, prints_no_write, Hr. reflexivity.
    - intros H _. inversion H; subst. rewrite no_write_app, prints_no_write, Hr. reflexivity.
  Qed.

  (* a successful run returns the rendered items and writes exactly one file: the header
     followed by the returned text, at out_path (OUT_DIR or the current directory) *)
  Theorem file_is_header_plus_text cwd od name srcs w txt tr :
    compile_json_m infer cwd od name srcs w = (Ok txt, tr) ->
    exists pre, tr = pre ++ [EWrite (out_path (match od with Some d => d | None => cwd end) name)
                                    (gen_header ++ txt)]
                /\ no_write pre = true.
  Proof.
    unfold compile_json_m. pose proof (read_all_no_write srcs) as Hr.
    destruct (read_all srcs) as [[cs|] eff]; simpl in Hr; [|intro H; inversion H].
    destruct (infer cs) as [s|e|]; intro H; inversion H; subst; clear H.
    destruct w; [|discriminate]. inversion H1; subst.
    eexists. split.
    - rewrite app_assoc. reflexivity.
    - rewrite no_write_app, prints_no_write, Hr. reflexivity.
  Qed.

  (* an empty source list never reaches the generator when inference rejects it *)
  Theorem empty_sources_error cwd od name w :
    (forall e, infer [] <> Ok e) ->
    exists r tr, compile_json_m infer cwd od name [] w = (r, tr) /\ no_write tr = true /\
                 (r = Err CInfer \/ r = Panic).
  Proof.
    intro H. unfold compile_json_m. simpl. destruct (infer []) as [s|e|] eqn:Ei.
    - exfalso. exact (H s eq_refl).
    - eexists. eexists. split; [reflexivity|]. split; [reflexivity|]. left. reflexivity.
    - eexists. eexists. split; [reflexivity|]. split; [reflexivity|]. right. reflexivity.
  Qed.
End Compile.

(* ---------- names ---------- *)
Theorem name_fun : forall a b, cmp a b = Eq -> shape_name a = shape_name b /\ shape_repr a = shape_repr b.
Proof. intros a b H. apply cmp_eq in H. subst. split; reflexivity. Qed.

(* different sub-shapes may receive one name: member names are not hashed *)
Definition kf4_a : shape := SObject [([97%N], SNumber false)] false.
Definition kf4_b : shape := SObject [([98%N], SNumber false)] false.
Theorem name_inj_refuted : exists a b, wf a = true /\ wf b = true /\ a <> b /\ shape_name a = shape_name b.
Proof. exists kf4_a, kf4_b. repeat split; try reflexivity. discriminate. Qed.

(* Pascal-casing the concatenated child names lower-cases hex digits: two enums whose
   variant sets differ only in the case of a CRC digit pattern can collide as well; the
   simplest structural collision needs no CRC at all: *)
Definition kf4_c : shape := SOneOf [kf4_a] false.
Definition kf4_d : shape := SOneOf [kf4_b] false.
Theorem name_inj_refuted_nested : kf4_c <> kf4_d /\ shape_name kf4_c = shape_name kf4_d.
Proof. split; [discriminate|reflexivity]. Qed.
