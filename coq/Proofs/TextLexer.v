(* TextLexer.v — the lexer model never panics (the `unreachable!()` of check_string is
   unreachable), never runs out of fuel, and every token span it produces is faithful:
   inside the source, on character boundaries, consecutive and non-empty; String tokens
   cover a text that starts and ends with a quotation mark. *)
From Coq Require Import List Bool NArith Lia.
Import ListNotations.
From JS Require Import Model.Base Model.Lexer Model.Parser Model.Walk Proofs.TextFacts.
Local Open Scope N_scope.

(* ---------- the scanners split their input ---------- *)
Lemma split_while_app p : forall cs w r, split_while p cs = (w, r) -> cs = w ++ r.
Proof.
  induction cs as [|c cs IH]; intros w r H; cbn [split_while] in H.
  - inversion H. reflexivity.
  - destruct (p c).
    + destruct (split_while p cs) as [w' r'] eqn:E. inversion H; subst. cbn [app]. f_equal. apply IH. reflexivity.
    + inversion H. reflexivity.
Qed.

Lemma scan_int_app cs w r : scan_int cs = Some (w, r) -> cs = w ++ r /\ w <> [].
Proof.
  unfold scan_int. destruct cs as [|c cs]; [discriminate|].
  destruct (c =? 48).
  - intros H; inversion H; subst. split; [reflexivity|discriminate].
  - destruct (is_digit19 c); [|discriminate].
    destruct (split_while is_dec_digit cs) as [w' r'] eqn:E. intros H; inversion H; subst.
    apply split_while_app in E. subst. split; [reflexivity|discriminate].
Qed.

Lemma scan_frac_app cs w r : scan_frac cs = (w, r) -> cs = w ++ r.
Proof.
  unfold scan_frac. destruct cs as [|c cs]; [intros H; inversion H; reflexivity|].
  destruct (c =? 46); [|intros H; inversion H; reflexivity].
  destruct (split_while is_dec_digit cs) as [w' r'] eqn:E. apply split_while_app in E.
  destruct w'; intros H; inversion H; subst; reflexivity.
Qed.

Lemma scan_exp_app cs w r : scan_exp cs = (w, r) -> cs = w ++ r.
Proof.
  unfold scan_exp. destruct cs as [|c cs]; [intros H; inversion H; reflexivity|].
  destruct ((c =? 101) || (c =? 69)); [|intros H; inversion H; reflexivity].
  assert (X : forall sg r1, cs = sg ++ r1 ->
            match split_while is_dec_digit r1 with
            | ([], _) => ([], c :: cs)
            | (w0, r') => (c :: sg ++ w0, r')
            end = (w, r) -> c :: cs = w ++ r).
  { intros sg r1 Hc. destruct (split_while is_dec_digit r1) as [w' r'] eqn:E. apply split_while_app in E.
    destruct w'; intros H; inversion H; subst; [reflexivity|].
    cbn [app]. rewrite <- app_assoc. reflexivity. }
  destruct cs as [|s cs'].
  - apply (X [] []). reflexivity.
  - destruct ((s =? 43) || (s =? 45)).
    + apply (X [s] cs'). reflexivity.
    + apply (X [] (s :: cs')). reflexivity.
Qed.

Lemma scan_number_app cs w r : scan_number cs = Some (w, r) -> cs = w ++ r /\ w <> [].
Proof.
  unfold scan_number.
  assert (X : forall m r0, cs = m ++ r0 ->
            match scan_int r0 with
            | Some (a, r1) => let '(b, r2) := scan_frac r1 in let '(e, r3) := scan_exp r2 in Some (m ++ a ++ b ++ e, r3)
            | None => None
            end = Some (w, r) -> cs = w ++ r /\ w <> []).
  { intros m r0 Hc. destruct (scan_int r0) as [[a r1]|] eqn:Ei; [|discriminate].
    apply scan_int_app in Ei. destruct Ei as [-> Ha].
    destruct (scan_frac r1) as [b r2] eqn:Ef. apply scan_frac_app in Ef. subst r1.
    destruct (scan_exp r2) as [e r3] eqn:Ee. apply scan_exp_app in Ee. subst r2.
    intros H; inversion H; subst. split.
    - rewrite <- !app_assoc. reflexivity.
    - destruct m; [destruct a; [contradiction|discriminate]|discriminate]. }
  destruct cs as [|c cs'].
  - apply (X [] []). reflexivity.
  - destruct (c =? 45).
    + apply (X [c] cs'). reflexivity.
    + apply (X [] (c :: cs')). reflexivity.
Qed.

(* two-step induction for the string scanner (it may consume two characters) *)
Lemma scan_string_app : forall n cs w r, (length cs <= n)%nat -> scan_string cs = Some (w, r) ->
  cs = w ++ r /\ exists w', w = w' ++ [34].
Proof.
  induction n as [|n IH]; intros cs w r Hl H.
  - destruct cs; [discriminate|cbn in Hl; lia].
  - destruct cs as [|c cs]; [discriminate|]. cbn [scan_string] in H. cbn [length] in Hl.
    destruct (c =? 34) eqn:Eq.
    + inversion H; subst. apply N.eqb_eq in Eq. subst. split; [reflexivity|exists []; reflexivity].
    + destruct (c =? 92).
      * destruct cs as [|d cs']; [discriminate|].
        destruct (scan_string cs') as [[w0 x]|] eqn:E; [|discriminate]. inversion H; subst.
        destruct (IH cs' w0 r) as [-> [w' ->]]; [cbn [length] in Hl; lia|exact E|].
        split; [reflexivity|]. exists (c :: d :: w'). reflexivity.
      * destruct (scan_string cs) as [[w0 x]|] eqn:E; [|discriminate]. inversion H; subst.
        destruct (IH cs w0 r) as [-> [w' ->]]; [lia|exact E|].
        split; [reflexivity|]. exists (c :: w'). reflexivity.
Qed.

(* ---------- check_string cannot reach `unreachable!()` ---------- *)
Definition ends_quote (cs : list char) : Prop := cs = [] \/ last cs 0 = 34.

Lemma ends_quote_tl c r : ends_quote (c :: r) -> ends_quote r.
Proof.
  intros [H|H]; [discriminate|]. destruct r as [|d r']; [left; reflexivity|right; exact H].
Qed.

Lemma option_map_some {A B} (f : A -> B) x : x <> None -> option_map f x <> None.
Proof. destruct x; [discriminate|contradiction]. Qed.

Lemma check_chars_some b st : forall cs i m, ends_quote cs -> (m = MEsc -> cs <> []) ->
  check_chars b st cs i m <> None.
Proof.
  induction cs as [|c r IH]; intros i m He Hm.
  - destruct m; cbn; try discriminate. exfalso. apply Hm; reflexivity.
  - pose proof (ends_quote_tl _ _ He) as Ht. cbn [check_chars].
    destruct m as [| |iu j].
    + destruct (c =? 92) eqn:E92.
      * apply IH; [exact Ht|]. intros _ ->. destruct He as [He|He]; [discriminate|].
        cbn in He. apply N.eqb_eq in E92. subst. discriminate.
      * destruct (32 <=? c); [apply IH; [exact Ht|discriminate]|].
        apply option_map_some. apply IH; [exact Ht|discriminate].
    + destruct (is_simple_escape c); [apply IH; [exact Ht|discriminate]|].
      destruct (c =? 117); [apply IH; [exact Ht|discriminate]|].
      apply option_map_some. apply IH; [exact Ht|discriminate].
    + destruct (is_hexdigit c).
      * apply IH; [exact Ht|]. destruct (j =? 3); discriminate.
      * apply option_map_some. apply IH; [exact Ht|discriminate].
Qed.

Lemma last_app_single {A} (l : list A) x d : last (l ++ [x]) d = x.
Proof. induction l as [|y l IH]; [reflexivity|]. cbn [app]. destruct (l ++ [x]) eqn:E; [destruct l; discriminate|exact IH]. Qed.

Lemma check_string_some cf body st : check_string cf (34 :: body ++ [34]) st <> None.
Proof.
  unfold check_string. apply check_chars_some; [|discriminate].
  right. change (34 :: body ++ [34]) with ((34 :: body) ++ [34]). apply last_app_single.
Qed.

(* ---------- one logos step ---------- *)
Lemma lex1_split cf c r res lexeme rest : lex1 cf c r = (res, lexeme, rest) ->
  c :: r = lexeme ++ rest /\ lexeme <> [] /\
  (res = LOk TString -> exists body, lexeme = 34 :: body ++ [34]).
Proof.
  unfold lex1. destruct (is_blank c).
  { destruct (split_while is_blank r) as [w r'] eqn:E. apply split_while_app in E. intros H; inversion H; subst.
    repeat split; [discriminate|discriminate]. }
  destruct (c =? 10).
  { intros H; inversion H; subst. repeat split; discriminate. }
  destruct (c =? 13).
  { destruct r as [|d r'].
    - destruct (f3_cr_newline cf); intros H; inversion H; subst; repeat split; discriminate.
    - destruct (d =? 10); [|destruct (f3_cr_newline cf)]; intros H; inversion H; subst; repeat split; discriminate. }
  destruct (punct c) as [t|] eqn:Ep.
  { intros H; inversion H; subst. repeat split; [discriminate|].
    intros Ht. inversion Ht; subst. unfold punct in Ep.
    repeat (destruct (c =? _); [discriminate|]). discriminate. }
  destruct (c =? 34) eqn:Eq.
  { apply N.eqb_eq in Eq. subst c. destruct (scan_string r) as [[w r']|] eqn:E.
    - apply (scan_string_app (length r)) in E; [|lia]. destruct E as [-> [w' ->]].
      intros H; inversion H; subst. repeat split; [discriminate|]. intros _. exists w'. reflexivity.
    - intros H; inversion H; subst. rewrite app_nil_r. repeat split; discriminate. }
  destruct ((c =? 45) || is_dec_digit c).
  { destruct (scan_number (c :: r)) as [[w r']|] eqn:E.
    - apply scan_number_app in E. destruct E as [E Hw]. intros H; inversion H; subst.
      repeat split; [exact E|exact Hw|discriminate].
    - intros H; inversion H; subst. repeat split; discriminate. }
  destruct (is_alpha c).
  { destruct (split_while is_alnum r) as [w r'] eqn:E. apply split_while_app in E. intros H; inversion H; subst.
    repeat split; [discriminate|].
    repeat (match goal with |- context [if ?b then _ else _] => destruct b end); discriminate. }
  intros H; inversion H; subst. repeat split; discriminate.
Qed.

(* ---------- tokenize ---------- *)
(* what the rest of the pipeline may assume about one token *)
Definition tok_ok (src : list char) (ts : tok * span) : Prop :=
  exists fr, faithful src (snd ts) fr /\
             (fst ts = TString -> exists body, fr = 34 :: body ++ [34]).

(* consecutive, non-empty spans starting at pos *)
Fixpoint chain (pos : N) (toks : list (tok * span)) : Prop :=
  match toks with
  | [] => True
  | (_, (a, b)) :: r => a = pos /\ pos < b /\ chain b r
  end.

Lemma l_status_lcons ts ds x : l_status (lcons ts ds x) = l_status x.
Proof. reflexivity. Qed.
Lemma l_toks_lcons ts ds x : l_toks (lcons ts ds x) = ts :: l_toks x.
Proof. reflexivity. Qed.

Lemma byte_len_pos cs : cs <> [] -> 0 < byte_len cs.
Proof. destruct cs as [|c r]; [contradiction|]. intros _. cbn [byte_len]. pose proof (utf8_len_pos c). lia. Qed.

Lemma lex_loop_ok cf src : forall fuel pre cs o c, src = pre ++ cs -> (length cs <= fuel)%nat ->
  let x := lex_loop cf fuel (byte_len pre) cs o c in
  l_status x = LDone /\ Forall (tok_ok src) (l_toks x) /\ chain (byte_len pre) (l_toks x).
Proof.
  induction fuel as [|f IH]; intros pre cs o c Hsrc Hl.
  - destruct cs; [cbn; repeat split; constructor|cbn in Hl; lia].
  - destruct cs as [|ch r]; [cbn; repeat split; constructor|].
    cbn [lex_loop]. destruct (lex1 cf ch r) as [[res lexeme] rest] eqn:E.
    destruct (lex1_split _ _ _ _ _ _ E) as [Hsplit [Hne Hstr]].
    assert (Hsrc' : src = (pre ++ lexeme) ++ rest) by (rewrite <- app_assoc, <- Hsplit; exact Hsrc).
    assert (Hlen : (length rest <= f)%nat).
    { assert (L : length (ch :: r) = (length lexeme + length rest)%nat) by (rewrite Hsplit; apply app_length).
      destruct lexeme; [contradiction|]. cbn [length] in *. lia. }
    assert (Hb : byte_len (pre ++ lexeme) = byte_len pre + byte_len lexeme) by apply byte_len_app.
    pose proof (byte_len_pos lexeme Hne) as Hpos.
    assert (Hfaith : faithful src (byte_len pre, byte_len pre + byte_len lexeme) lexeme).
    { exists pre, rest. cbn [fst snd]. split; [rewrite Hsrc', <- app_assoc; reflexivity|split; reflexivity]. }
    cbn [fst snd].
    specialize (IH (pre ++ lexeme) rest).
    destruct res as [t| |].
    + destruct (match t with TString => check_string cf lexeme (byte_len pre) | _ => Some [] end) as [ds|] eqn:Ec.
      * destruct (bracket_delta t o c) as [o' c'].
        destruct (c' + 256 <? o'); [cbn; repeat split; constructor|].
        rewrite l_status_lcons, l_toks_lcons. specialize (IH o' c' Hsrc' Hlen). rewrite Hb in IH.
        destruct IH as [I1 [I2 I3]]. repeat split; [exact I1| |lia|exact I3].
        constructor; [|exact I2]. exists lexeme. cbn [fst snd]. split; [exact Hfaith|].
        intros ->. apply Hstr. reflexivity.
      * exfalso. destruct t; try discriminate. destruct (Hstr eq_refl) as [body ->].
        exact (check_string_some _ _ _ Ec).
    + rewrite l_status_lcons, l_toks_lcons. specialize (IH o c Hsrc' Hlen). rewrite Hb in IH.
      destruct IH as [I1 [I2 I3]]. repeat split; [exact I1| |lia|exact I3].
      constructor; [|exact I2]. exists lexeme. cbn [fst snd]. split; [exact Hfaith|discriminate].
    + rewrite l_status_lcons, l_toks_lcons. specialize (IH o c Hsrc' Hlen). rewrite Hb in IH.
      destruct IH as [I1 [I2 I3]]. repeat split; [exact I1| |lia|exact I3].
      constructor; [|exact I2]. exists lexeme. cbn [fst snd]. split; [exact Hfaith|discriminate].
Qed.

Theorem lex_ok cf src :
  l_status (lex cf src) = LDone /\ Forall (tok_ok src) (l_toks (lex cf src)) /\ chain 0 (l_toks (lex cf src)).
Proof. unfold lex. apply (lex_loop_ok cf src (length src) [] src 0 0); [reflexivity|lia]. Qed.

(* consequences of [chain] used by the walk: spans are ordered *)
Lemma chain_lower : forall toks pos i t sp, chain pos toks -> nth_error toks i = Some (t, sp) ->
  pos <= fst sp /\ fst sp < snd sp.
Proof.
  induction toks as [|[t0 [a b]] r IH]; intros pos i t sp Hc Hn; [destruct i; discriminate|].
  cbn [chain] in Hc. destruct Hc as [-> [Hlt Hc]]. destruct i as [|i]; cbn in Hn.
  - inversion Hn; subst. cbn. lia.
  - destruct (IH _ _ _ _ Hc Hn). lia.
Qed.

Lemma chain_ordered : forall toks pos i j ti si tj sj, chain pos toks -> (i <= j)%nat ->
  nth_error toks i = Some (ti, si) -> nth_error toks j = Some (tj, sj) -> fst si <= fst sj /\ snd si <= snd sj.
Proof.
  induction toks as [|[t0 [a b]] r IH]; intros pos i j ti si tj sj Hc Hij Hi Hj; [destruct i; discriminate|].
  cbn [chain] in Hc. destruct Hc as [-> [Hlt Hc]]. destruct i as [|i], j as [|j]; cbn in Hi, Hj; try lia.
  - inversion Hi; inversion Hj; subst. lia.
  - inversion Hi; subst. destruct (chain_lower _ _ _ _ _ Hc Hj). cbn. lia.
  - eapply IH; [exact Hc| |exact Hi|exact Hj]. lia.
Qed.

(* ---------- diagnostics of the lexer carry faithful ranges once F2 repairs check_string ---------- *)
Definition diag_ok (src : list char) (d : diag) : Prop := exists fr, faithful src (snd d) fr.

Lemma seg_faithful src p fr q a b : src = p ++ fr ++ q -> a = byte_len p -> b = byte_len p + byte_len fr ->
  faithful src (a, b) fr.
Proof. intros -> -> ->. exists p, q. cbn [fst snd]. repeat split. Qed.

Lemma is_hexdigit_ascii c : is_hexdigit c = true -> utf8_len c = 1.
Proof.
  unfold is_hexdigit, is_dec_digit. intros H. apply utf8_len_ascii.
  repeat (apply orb_true_iff in H; destruct H as [H|H]); apply andb_true_iff in H; destruct H as [_ H];
    apply N.leb_le in H; lia.
Qed.

Definition mode_inv (m : smode) (done : list char) : Prop :=
  match m with
  | MNormal => True
  | MEsc => exists d0, done = d0 ++ [92]
  | MHex iu j => exists d0 hx, done = d0 ++ [92; 117] ++ hx /\ byte_len hx = j /\ iu = byte_len d0 + 1
  end.

Lemma check_chars_diags src p q : forall cs done m ds,
  src = p ++ (done ++ cs) ++ q -> mode_inv m done ->
  check_chars true (byte_len p) cs (byte_len done) m = Some ds -> Forall (diag_ok src) ds.
Proof.
  induction cs as [|c r IH]; intros done m ds Hsrc Hm H; cbn [check_chars] in H.
  - destruct m as [| |iu j]; [injection H as <-; constructor|discriminate H|]. injection H as <-. constructor; [|constructor].
    destruct Hm as [d0 [hx [Hd [Hh Hi]]]]. exists ([92; 117] ++ hx). cbn [snd].
    apply (seg_faithful src (p ++ d0) _ q).
    + rewrite Hsrc, Hd, app_nil_r, <- !app_assoc. reflexivity.
    + rewrite byte_len_app. lia.
    + rewrite !byte_len_app. cbn [byte_len]. change (utf8_len 92) with 1. change (utf8_len 117) with 1. lia.
  - assert (Hsrc' : src = p ++ ((done ++ [c]) ++ r) ++ q) by (rewrite Hsrc, <- !app_assoc; reflexivity).
    assert (Hb : byte_len done + utf8_len c = byte_len (done ++ [c])) by (rewrite byte_len_app; cbn [byte_len]; lia).
    rewrite Hb in H.
    assert (Step : forall m' ds', mode_inv m' (done ++ [c]) ->
              check_chars true (byte_len p) r (byte_len (done ++ [c])) m' = Some ds' -> Forall (diag_ok src) ds')
      by (intros m' ds' Hm' H'; exact (IH (done ++ [c]) m' ds' Hsrc' Hm' H')).
    assert (StepD : forall m' d, mode_inv m' (done ++ [c]) -> diag_ok src d ->
              option_map (cons d) (check_chars true (byte_len p) r (byte_len (done ++ [c])) m') = Some ds ->
              Forall (diag_ok src) ds).
    { intros m' d Hm' Hd H'. destruct (check_chars true (byte_len p) r (byte_len (done ++ [c])) m') as [ds'|] eqn:E; [|discriminate].
      cbn in H'. injection H' as <-. constructor; [exact Hd|]. eapply Step; eassumption. }
    destruct m as [| |iu j].
    + destruct (c =? 92) eqn:E92.
      * apply N.eqb_eq in E92. subst c. eapply Step; [|exact H]. exists done. reflexivity.
      * destruct (32 <=? c) eqn:E32; [apply (Step MNormal ds I H)|].
        eapply (StepD MNormal _ I); [|exact H]. exists [c]. cbn [snd].
        apply N.leb_gt in E32. assert (U : utf8_len c = 1) by (apply utf8_len_ascii; lia).
        apply (seg_faithful src (p ++ done) _ (r ++ q)).
        -- rewrite Hsrc, <- !app_assoc. reflexivity.
        -- rewrite byte_len_app. reflexivity.
        -- rewrite byte_len_app. cbn [byte_len]. lia.
    + destruct Hm as [d0 Hd].
      destruct (is_simple_escape c); [apply (Step MNormal ds I H)|].
      destruct (c =? 117) eqn:Eu.
      * apply N.eqb_eq in Eu. subst c. eapply Step; [|exact H].
        exists d0, []. split; [rewrite Hd, <- app_assoc; reflexivity|]. split; [reflexivity|].
        rewrite Hd, byte_len_app. cbn [byte_len]. change (utf8_len 92) with 1. lia.
      * eapply (StepD MNormal _ I); [|exact H]. exists [92; c]. cbn [snd].
        apply (seg_faithful src (p ++ d0) _ (r ++ q)).
        -- rewrite Hsrc, Hd, <- !app_assoc. reflexivity.
        -- rewrite Hd, !byte_len_app. cbn [byte_len]. change (utf8_len 92) with 1. lia.
        -- rewrite Hd, !byte_len_app. cbn [byte_len]. change (utf8_len 92) with 1. lia.
    + destruct Hm as [d0 [hx [Hd [Hh Hi]]]].
      destruct (is_hexdigit c) eqn:Ehx.
      * eapply Step; [|exact H]. destruct (j =? 3); [exact I|].
        exists d0, (hx ++ [c]). split; [rewrite Hd, <- !app_assoc; reflexivity|]. split; [|exact Hi].
        rewrite byte_len_app. cbn [byte_len]. rewrite (is_hexdigit_ascii c Ehx). lia.
      * eapply (StepD MNormal _ I); [|exact H]. exists ([92; 117] ++ hx). cbn [snd].
        apply (seg_faithful src (p ++ d0) _ ([c] ++ r ++ q)).
        -- rewrite Hsrc, Hd, <- !app_assoc. reflexivity.
        -- rewrite byte_len_app. lia.
        -- rewrite !byte_len_app. cbn [byte_len]. change (utf8_len 92) with 1. change (utf8_len 117) with 1. lia.
Qed.

Lemma l_diags_lcons ts ds x : l_diags (lcons ts ds x) = ds ++ l_diags x.
Proof. reflexivity. Qed.

Lemma lex_loop_diags cf src : f2_honour_diags cf = true ->
  forall fuel pre cs o c, src = pre ++ cs ->
  Forall (diag_ok src) (l_diags (lex_loop cf fuel (byte_len pre) cs o c)).
Proof.
  intros Hf2. induction fuel as [|f IH]; intros pre cs o c Hsrc.
  - destruct cs; cbn; constructor.
  - destruct cs as [|ch r]; [cbn; constructor|].
    cbn [lex_loop]. destruct (lex1 cf ch r) as [[res lexeme] rest] eqn:E.
    destruct (lex1_split _ _ _ _ _ _ E) as [Hsplit [Hne Hstr]].
    assert (Hsrc' : src = (pre ++ lexeme) ++ rest) by (rewrite <- app_assoc, <- Hsplit; exact Hsrc).
    assert (Hb : byte_len (pre ++ lexeme) = byte_len pre + byte_len lexeme) by apply byte_len_app.
    assert (Hd : diag_ok src (DInvalid, (byte_len pre, byte_len pre + byte_len lexeme))).
    { exists lexeme. apply (seg_faithful src pre lexeme rest); [rewrite Hsrc', <- app_assoc|..]; reflexivity. }
    cbn [fst snd]. specialize (IH (pre ++ lexeme) rest). rewrite Hb in IH.
    destruct res as [t| |].
    + destruct (match t with TString => check_string cf lexeme (byte_len pre) | _ => Some [] end) as [ds|] eqn:Ec;
        [|cbn; constructor].
      assert (Hds : Forall (diag_ok src) ds).
      { destruct t; try (inversion Ec; constructor). unfold check_string in Ec. rewrite Hf2 in Ec.
        apply (check_chars_diags src pre rest lexeme [] MNormal ds); [rewrite Hsrc', <- app_assoc; reflexivity|exact I|exact Ec]. }
      destruct (bracket_delta t o c) as [o' c'].
      destruct (c' + 256 <? o').
      * cbn [l_diags]. apply Forall_app. split; [exact Hds|]. constructor; [|constructor].
        destruct Hd as [fr Hfr]. exists fr. exact Hfr.
      * rewrite l_diags_lcons. apply Forall_app. split; [exact Hds|]. apply IH. exact Hsrc'.
    + rewrite l_diags_lcons. cbn [app]. constructor; [exact Hd|]. apply IH. exact Hsrc'.
    + rewrite l_diags_lcons. cbn [app]. constructor; [|apply IH; exact Hsrc'].
      destruct Hd as [fr Hfr]. exists fr. exact Hfr.
Qed.

Theorem lex_diags_ok cf src : f2_honour_diags cf = true -> Forall (diag_ok src) (l_diags (lex cf src)).
Proof. intros H. unfold lex. apply (lex_loop_diags cf src H (length src) [] src 0 0). reflexivity. Qed.
