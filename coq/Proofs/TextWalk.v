(* TextWalk.v — the CST walk on a well-formed CST over faithful token spans:
   no Panic site can fire (vector indices, node slices, `source[span]`, the key slice
   `source[start+1..end-1]`, the array classification), the fuel suffices, and every
   Error::InvalidJson it returns carries a faithful range (inside the input, on character
   boundaries, fragment = input at the range). *)
From Coq Require Import List Bool Arith NArith Lia Sorted.
Import ListNotations.
From JS Require Import Model.Base Model.Shape Model.Sem Model.Infer Model.Lexer Model.Unescape Model.Parser Model.Walk
  Proofs.TextFacts Proofs.TextLexer Proofs.TextParser.

(* ---------- faithful ranges compose ---------- *)
Lemma prefix_of_app : forall (p1 s1 p2 s2 : list char), p1 ++ s1 = p2 ++ s2 ->
  (byte_len p1 <= byte_len p2)%N -> exists m, p2 = p1 ++ m.
Proof.
  induction p1 as [|c p1 IH]; intros s1 p2 s2 H Hl; [exists p2; reflexivity|].
  destruct p2 as [|d p2].
  - cbn [byte_len] in Hl. pose proof (utf8_len_pos c). lia.
  - cbn [app] in H. inversion H; subst. cbn [byte_len] in Hl.
    destruct (IH s1 p2 s2) as [m ->]; [assumption|lia|]. exists m. reflexivity.
Qed.

Lemma faithful_join src a1 a2 fa b1 b2 fb : faithful src (a1, a2) fa -> faithful src (b1, b2) fb ->
  (a1 <= b2)%N -> exists fr, faithful src (a1, b2) fr.
Proof.
  intros [pa [qa [Ea [Ha1 Ha2]]]] [pb [qb [Eb [Hb1 Hb2]]]] Hle. cbn [fst snd] in *.
  assert (E : pa ++ (fa ++ qa) = (pb ++ fb) ++ qb) by (rewrite <- app_assoc, <- Ea, <- Eb; reflexivity).
  destruct (prefix_of_app _ _ _ _ E) as [m Hm]; [rewrite byte_len_app; lia|].
  exists m. exists pa, qb. cbn [fst snd]. split; [|split; [exact Ha1|]].
  - rewrite Eb, app_assoc, Hm, <- !app_assoc. reflexivity.
  - assert (byte_len (pb ++ fb) = byte_len pa + byte_len m)%N by (rewrite Hm; apply byte_len_app).
    rewrite byte_len_app in H. lia.
Qed.

Lemma faithful_point_end src sp fr : faithful src sp fr -> faithful src (snd sp, snd sp) [].
Proof.
  intros [p [q [E [H1 H2]]]]. exists (p ++ fr), q. cbn [fst snd]. rewrite byte_len_app. cbn [app byte_len].
  split; [rewrite <- app_assoc; exact E|split; lia].
Qed.

Lemma faithful_origin src : faithful src (0%N, 0%N) [].
Proof. exists [], src. cbn. repeat split. Qed.

(* the text between the quotes of a String token *)
Lemma faithful_inner src sp body : faithful src sp (34%N :: body ++ [34%N]) ->
  snd sp <> 0%N /\ faithful src ((fst sp + 1)%N, (snd sp - 1)%N) body.
Proof.
  intros [p [q [E [H1 H2]]]]. cbn [byte_len] in H2. rewrite byte_len_app in H2. cbn [byte_len] in H2.
  assert (U : utf8_len 34%N = 1%N) by reflexivity. rewrite U in H2.
  split; [lia|]. exists (p ++ [34%N]), (34%N :: q). cbn [fst snd]. rewrite byte_len_app. cbn [byte_len]. rewrite U.
  split; [|split; lia]. rewrite E. rewrite <- !app_assoc. cbn [app]. rewrite <- app_assoc. reflexivity.
Qed.

(* ---------- token indices of a node list ---------- *)
Definition tidx (n : node) : list nat := match n with NTok _ i => [i] | NRule _ _ => [] end.
Definition tok_idxs (l : list node) : list nat := flat_map tidx l.

Lemma tok_idxs_app a b : tok_idxs (a ++ b) = tok_idxs a ++ tok_idxs b.
Proof. apply flat_map_app. Qed.

Lemma tok_idxs_rev l : tok_idxs (rev l) = rev (tok_idxs l).
Proof.
  induction l as [|x l IH]; [reflexivity|]. cbn [rev]. rewrite tok_idxs_app, IH.
  unfold tok_idxs at 2 3. cbn [flat_map]. rewrite app_nil_r. destruct x; cbn [tidx]; [rewrite app_nil_r|]; reflexivity.
Qed.

Lemma find_tok_hd l : find_tok l = hd_error (tok_idxs l).
Proof. induction l as [|[r o|t i] l IH]; [reflexivity|exact IH|reflexivity]. Qed.

Lemma tok_idxs_In l j : In j (tok_idxs l) -> exists p t, nth_error l p = Some (NTok t j).
Proof.
  induction l as [|x l IH]; [intros []|]. unfold tok_idxs. cbn [flat_map]. intros H. apply in_app_or in H.
  destruct H as [H|H].
  - destruct x as [r o|t i]; [destruct H|]. destruct H as [<-|[]]. exists 0, t. reflexivity.
  - destruct (IH H) as [p [t E]]. exists (S p), t. exact E.
Qed.

Lemma ord_sorted : forall l,
  (forall k k' t i t' i', k < k' -> nth_error l k = Some (NTok t i) -> nth_error l k' = Some (NTok t' i') -> i < i') ->
  StronglySorted lt (tok_idxs l).
Proof.
  induction l as [|x l IH]; intros H; [constructor|].
  assert (Hl : StronglySorted lt (tok_idxs l)).
  { apply IH. intros k k' t i t' i' Hlt E E'. apply (H (S k) (S k') t i t' i'); [lia|exact E|exact E']. }
  destruct x as [r o|t i]; [exact Hl|]. unfold tok_idxs. cbn [flat_map tidx app]. constructor; [exact Hl|].
  apply Forall_forall. intros j Hj. destruct (tok_idxs_In _ _ Hj) as [p [t' E]].
  apply (H 0 (S p) t i t' j); [lia|reflexivity|exact E].
Qed.

Lemma sorted_app_l {A} (R : A -> A -> Prop) a b : StronglySorted R (a ++ b) -> StronglySorted R a.
Proof.
  induction a as [|x a IH]; intros H; [constructor|]. cbn [app] in H. inversion H as [|? ? Hs Hf]; subst.
  constructor; [apply IH; exact Hs|]. apply Forall_app in Hf. destruct Hf; assumption.
Qed.

Lemma sorted_app_r {A} (R : A -> A -> Prop) a b : StronglySorted R (a ++ b) -> StronglySorted R b.
Proof. induction a as [|x a IH]; intros H; [exact H|]. cbn [app] in H. inversion H; subst. apply IH. assumption. Qed.

Lemma sorted_hd_last xs f l : StronglySorted lt xs -> hd_error xs = Some f -> hd_error (rev xs) = Some l -> f <= l.
Proof.
  intros Hs Hf Hl. destruct xs as [|x xs]; [discriminate|]. cbn in Hf. inversion Hf; subst.
  inversion Hs as [|? ? _ Hall]; subst.
  assert (Hin : In l (f :: xs)).
  { apply in_rev. destruct (rev (f :: xs)); [discriminate|]. cbn in Hl. inversion Hl; subst. left; reflexivity. }
  destruct Hin as [->|Hin]; [lia|]. rewrite Forall_forall in Hall. apply Hall in Hin. lia.
Qed.

(* ---------- the environment of the walk ---------- *)
Record wenv (src : list char) (toks : list (tok * span)) (c : cst) : Prop := {
  we_wf : cst_wf toks c;
  we_toks : Forall (tok_ok src) toks;
  we_chain : chain 0 toks
}.

Section Walk.
  Variable src : list char.
  Variable toks : list (tok * span).
  Variable c : cst.
  Hypothesis W : wenv src toks c.

  Let nlen := length (c_nodes c).

  Lemma get_ok i : i < nlen -> exists n, nth_error (c_nodes c) i = Some n /\ cst_get c i = Ok n.
  Proof.
    intros H. destruct (nth_error (c_nodes c) i) as [n|] eqn:E.
    - exists n. split; [reflexivity|]. unfold cst_get. rewrite E. reflexivity.
    - apply nth_error_None in E. unfold nlen in H. lia.
  Qed.

  Lemma inner_ok i r off : nth_error (c_nodes c) i = Some (NRule r off) ->
    exists sl, inner c i off = Some sl /\ length sl = off /\
               c_nodes c = firstn (S i) (c_nodes c) ++ sl ++ skipn off (skipn (S i) (c_nodes c)).
  Proof.
    intros E. pose proof (wf_rule _ _ (we_wf _ _ _ W) _ _ _ E) as Hr. unfold inner.
    assert (Hl : length (firstn off (skipn (S i) (c_nodes c))) = off).
    { rewrite firstn_length, skipn_length. lia. }
    rewrite Hl, Nat.eqb_refl. eexists. split; [reflexivity|]. split; [exact Hl|].
    rewrite firstn_skipn, firstn_skipn. reflexivity.
  Qed.

  Lemma kids_range : forall sl o skip k, In k (kids sl o skip) -> o <= k < o + length sl.
  Proof.
    induction sl as [|n tl IH]; intros o skip k H; [destruct H|]. cbn [kids length] in *.
    destruct skip as [|s].
    - destruct H as [<-|H]; [lia|]. destruct n; apply IH in H; lia.
    - apply IH in H. lia.
  Qed.

  Lemma children_ok i : i < nlen ->
    exists ks, children c i = Ok ks /\ Forall (fun k => i < k < nlen) ks.
  Proof.
    intros H. destruct (get_ok i H) as [n [E _]]. unfold children. rewrite E.
    destruct n as [r off|t idx]; [|exists []; split; [reflexivity|constructor]].
    destruct (inner_ok i r off E) as [sl [Es [Hl _]]]. rewrite Es.
    eexists. split; [reflexivity|]. apply Forall_forall. intros k Hk. apply kids_range in Hk.
    pose proof (wf_rule _ _ (we_wf _ _ _ W) _ _ _ E). unfold nlen. lia.
  Qed.

  (* every token index stored in the tree designates a token with a faithful span *)
  Lemma idx_span j : In j (tok_idxs (c_nodes c)) ->
    exists t sp fr, nth_error toks j = Some (t, sp) /\ span_at c j = Ok sp /\ faithful src sp fr.
  Proof.
    intros Hj. destruct (tok_idxs_In _ _ Hj) as [p [t E]].
    destruct (wf_tok _ _ (we_wf _ _ _ W) _ _ _ E) as [sp Et].
    pose proof (we_toks _ _ _ W) as Ht. rewrite Forall_forall in Ht.
    destruct (Ht _ (nth_error_In _ _ Et)) as [fr [Hf _]]. cbn [snd] in Hf.
    exists t, sp, fr. split; [exact Et|]. split; [|exact Hf].
    unfold span_at. rewrite (wf_spans _ _ (we_wf _ _ _ W)).
    rewrite (map_nth_error snd _ _ Et). reflexivity.
  Qed.

  Lemma sorted_nodes : StronglySorted lt (tok_idxs (c_nodes c)).
  Proof. apply ord_sorted. apply (wf_ord _ _ (we_wf _ _ _ W)). Qed.

  Lemma hd_error_In {A} (l : list A) x : hd_error l = Some x -> In x l.
  Proof. destruct l; [discriminate|]. cbn. intros H; inversion H. left; reflexivity. Qed.

  Lemma span_ok i : i < nlen -> exists sp fr, cst_span c i = Ok sp /\ faithful src sp fr.
  Proof.
    intros H. destruct (get_ok i H) as [n [E _]]. unfold cst_span. rewrite E.
    destruct n as [r off|t idx].
    - destruct (inner_ok i r off E) as [sl [Es [Hl Hdec]]]. rewrite Es.
      assert (Hsub : forall j, In j (tok_idxs sl) -> In j (tok_idxs (c_nodes c))).
      { intros j Hj. rewrite Hdec, !tok_idxs_app. apply in_or_app. right. apply in_or_app. left. exact Hj. }
      rewrite !find_tok_hd, !tok_idxs_rev.
      destruct (hd_error (tok_idxs sl)) as [f|] eqn:Ef.
      + destruct (hd_error (rev (tok_idxs sl))) as [l|] eqn:El.
        * destruct (idx_span f (Hsub _ (hd_error_In _ _ Ef))) as [tf [sf [ff [Etf [Esf Hff]]]]].
          assert (Hlin : In l (tok_idxs sl)) by (apply in_rev; apply hd_error_In; exact El).
          destruct (idx_span l (Hsub _ Hlin)) as [tl [sl' [fl [Etl [Esl Hfl]]]]].
          rewrite Esf, Esl. cbn [obind].
          assert (Hfl' : f <= l).
          { eapply sorted_hd_last; [|exact Ef|exact El].
            pose proof sorted_nodes as Hs. rewrite Hdec, !tok_idxs_app in Hs.
            apply sorted_app_r in Hs. apply sorted_app_l in Hs. exact Hs. }
          destruct (chain_ordered _ _ _ _ _ _ _ _ (we_chain _ _ _ W) Hfl' Etf Etl) as [O1 O2].
          destruct (chain_lower _ _ _ _ _ (we_chain _ _ _ W) Etl) as [_ O3].
          destruct sf as [a1 a2], sl' as [b1 b2]. cbn [fst snd] in *.
          destruct (faithful_join src a1 a2 ff b1 b2 fl Hff Hfl) as [fr Hfr]; [lia|].
          exists (a1, b2), fr. split; [reflexivity|exact Hfr].
        * exfalso. destruct (tok_idxs sl); [discriminate|]. cbn [rev] in El.
          destruct (rev l ++ [n]) eqn:X; [destruct (rev l); discriminate|discriminate].
      + 
        destruct (hd_error (rev (tok_idxs (firstn i (c_nodes c))))) as [b|] eqn:Eb.
        * assert (Hb : In b (tok_idxs (c_nodes c))).
          { apply hd_error_In in Eb. apply in_rev in Eb.
            rewrite <- (firstn_skipn i (c_nodes c)), tok_idxs_app. apply in_or_app. left. exact Eb. }
          destruct (idx_span b Hb) as [tb [sb [fb [Etb [Esb Hfb]]]]]. rewrite Esb. cbn [obind].
          exists (snd sb, snd sb), []. split; [reflexivity|]. eapply faithful_point_end. exact Hfb.
        * exists (0%N, 0%N), []. split; [reflexivity|apply faithful_origin].
    - assert (Hin : In idx (tok_idxs (c_nodes c))).
      { apply nth_error_split in E. destruct E as [l1 [l2 [E _]]]. rewrite E, tok_idxs_app.
        apply in_or_app. right. left. reflexivity. }
      destruct (idx_span idx Hin) as [t' [sp [fr [_ [Es Hf]]]]]. exists sp, fr. split; assumption.
  Qed.

  (* the span of a String token node: the token text is quote body quote *)
  Lemma string_span_ok i idx : nth_error (c_nodes c) i = Some (NTok TString idx) ->
    exists sp body, cst_span c i = Ok sp /\ faithful src sp (34%N :: body ++ [34%N]).
  Proof.
    intros E. unfold cst_span. rewrite E.
    destruct (wf_tok _ _ (we_wf _ _ _ W) _ _ _ E) as [sp Et].
    pose proof (we_toks _ _ _ W) as Ht. rewrite Forall_forall in Ht.
    destruct (Ht _ (nth_error_In _ _ Et)) as [fr [Hf Hs]]. cbn [fst snd] in *.
    destruct (Hs eq_refl) as [body ->]. exists sp, body. split; [|exact Hf].
    unfold span_at. rewrite (wf_spans _ _ (we_wf _ _ _ W)), (map_nth_error snd _ _ Et). reflexivity.
  Qed.
End Walk.

(* ---------- outcomes the walk may produce ---------- *)
Definition err_ok (src : list char) (e : terr) : Prop :=
  match e with
  | EInvalidJson sp fr => faithful src sp fr
  | EFuel => False
  | _ => True
  end.

Definition good {A} (src : list char) (o : tout A) : Prop :=
  match o with Ok _ => True | Err e => err_ok src e | Panic => False end.

Lemma good_bind {A B} src (x : tout A) (f : A -> tout B) :
  good src x -> (forall a, x = Ok a -> good src (f a)) -> good src (obind x f).
Proof. destruct x; cbn; intros H G; [apply G; reflexivity|exact H|exact H]. Qed.

Lemma array_text_no_panic es : array_text es <> Panic.
Proof.
  unfold array_text.
  destruct (nonempty es && (len_eq1 es || all_adjacent_eq es)) eqn:E1.
  - apply andb_true_iff in E1. destruct E1 as [E1 _]. destruct es; [discriminate E1|]. cbn. discriminate.
  - destruct (len_gt1 es && forallb is_object es) eqn:E2.
    + apply andb_true_iff in E2. destruct E2 as [E2 E3]. destruct es as [|a r]; [discriminate E2|].
      cbn [forallb] in E3. apply andb_true_iff in E3. destruct E3 as [E3 _].
      destruct a; try discriminate E3. cbn. discriminate.
    + destruct (len_gt1 es); discriminate.
Qed.

Lemma lift_infer_good src es : good src (lift_infer (array_text es)).
Proof.
  pose proof (array_text_no_panic es). destruct (array_text es) as [s|[a b]|]; cbn; [exact I|exact I|congruence].
Qed.

Lemma mapM_good {A B} src (f : A -> tout B) l : Forall (fun x => good src (f x)) l -> good src (mapM_o f l).
Proof.
  induction 1 as [|x r Hx Hr IH]; cbn [mapM_o]; [exact I|].
  apply good_bind; [exact Hx|]. intros a _. apply good_bind; [exact IH|]. intros; exact I.
Qed.

Section Walk2.
  Variable src : list char.
  Variable toks : list (tok * span).
  Variable c : cst.
  Hypothesis W : wenv src toks c.

  Let nlen := length (c_nodes c).

  Lemma invalid_json_good {A} i : i < nlen -> good src (@invalid_json A c src i).
  Proof.
    intros H. destruct (span_ok src toks c W i H) as [sp [fr [E Hf]]]. unfold invalid_json. rewrite E. cbn [obind].
    rewrite (slice_src_complete _ _ _ Hf). exact Hf.
  Qed.

  Lemma kid_nodes_ok : forall ks, Forall (fun k => k < nlen) ks ->
    exists kn, kid_nodes c ks = Ok kn /\ map fst kn = ks /\
               Forall (fun x => nth_error (c_nodes c) (fst x) = Some (snd x)) kn.
  Proof.
    induction ks as [|k r IH]; intros H; [exists []; repeat split; constructor|].
    inversion H as [|? ? Hk Hr]; subst. destruct (get_ok c k Hk) as [n [En Eg]].
    destruct (IH Hr) as [kn [E [Em Ef]]]. exists ((k, n) :: kn). cbn [kid_nodes]. rewrite Eg. cbn [obind]. rewrite E. cbn [obind].
    repeat split; [cbn; congruence|constructor; assumption].
  Qed.

  Lemma kids_of_ok i : i < nlen ->
    exists kn, kids_of c i = Ok kn /\ Forall (fun x => i < fst x < nlen /\ nth_error (c_nodes c) (fst x) = Some (snd x)) kn.
  Proof.
    intros H. destruct (children_ok src toks c W i H) as [ks [E Hr]]. unfold kids_of. rewrite E. cbn [obind].
    destruct (kid_nodes_ok ks) as [kn [E2 [Em Ef]]].
    { eapply Forall_impl; [|exact Hr]. cbn. intros; lia. }
    exists kn. split; [exact E2|]. subst ks. rewrite Forall_forall in *. intros x Hx. split; [|apply Ef; exact Hx].
    apply Hr. apply in_map. exact Hx.
  Qed.

  Lemma find_kid_in p kn k : find_kid p kn = Some k -> exists n, In (k, n) kn /\ p n = true.
  Proof.
    unfold find_kid. destruct (find (fun x => p (snd x)) kn) as [[k' n]|] eqn:E; [|discriminate].
    intros H; inversion H; subst. apply find_some in E. exists n. exact E.
  Qed.

  Lemma has_errors_good i : i < nlen -> good src (has_errors c src i).
  Proof.
    intros H. unfold has_errors. destruct (kids_of_ok i H) as [kn [E Hf]]. rewrite E. cbn [obind].
    destruct (find_kid is_error_node kn) as [e|] eqn:Ee; [|exact I].
    destruct (find_kid_in _ _ _ Ee) as [n [Hin _]]. rewrite Forall_forall in Hf. apply Hf in Hin. cbn in Hin.
    apply invalid_json_good. lia.
  Qed.

  Lemma parse_token_good k : k < nlen -> good src (parse_token c k).
  Proof.
    intros H. unfold parse_token. destruct (get_ok c k H) as [n [_ E]]. rewrite E. cbn [obind].
    destruct n as [[] o|[] i]; exact I.
  Qed.

  Lemma parse_member_good (pr : nat -> tout shape) i content : i < nlen ->
    (forall v, i < v < nlen -> good src (pr v)) -> good src (parse_member pr c src i content).
  Proof.
    intros H Hpr. unfold parse_member. destruct (kids_of_ok i H) as [kn [E Hf]]. rewrite E. cbn [obind].
    rewrite Forall_forall in Hf.
    destruct (find_kid is_string_tok kn) as [k|] eqn:Ek; [|exact I].
    destruct (find_kid_in _ _ _ Ek) as [n [Hin Hn]]. pose proof (Hf _ Hin) as [Hk En]. cbn [fst snd] in *.
    destruct n as [r o|t idx]; [discriminate|]. destruct t; try discriminate.
    destruct (string_span_ok src toks c W k idx En) as [sp [body [Es Hfa]]]. rewrite Es. cbn [obind].
    destruct (faithful_inner _ _ _ Hfa) as [Hnz Hin']. apply N.eqb_neq in Hnz. rewrite Hnz.
    rewrite (slice_src_complete _ _ _ Hin').
    apply good_bind; [apply has_errors_good; exact H|]. intros _ _.
    destruct (find_kid is_value_rule kn) as [v|] eqn:Ev; [|exact I].
    destruct (find_kid_in _ _ _ Ev) as [nv [Hinv _]]. pose proof (Hf _ Hinv) as [Hv _]. cbn [fst] in Hv.
    apply good_bind; [apply Hpr; exact Hv|]. intros s _.
    destruct (map_get (utf8_encode (name_chars body)) content) as [old|]; [|exact I].
    destruct old; try (destruct (shape_eqb s _); exact I). destruct (sset_mem s vs); exact I.
  Qed.

  Lemma fold_members_good pm : forall ms content,
    (forall m ct, In m ms -> good src (pm m ct)) -> good src (fold_members pm ms content).
  Proof.
    induction ms as [|m r IH]; intros content H; cbn [fold_members]; [exact I|].
    apply good_bind; [apply H; left; reflexivity|]. intros ct _. apply IH. intros m' ct' Hin. apply H. right; exact Hin.
  Qed.

  Lemma parse_rule_good : forall fuel i, i < nlen -> nlen <= fuel + i -> good src (parse_rule fuel c src i).
  Proof.
    induction fuel as [|f IH]; intros i H Hf; [lia|]. cbn [parse_rule].
    destruct (get_ok c i H) as [n [En Eg]]. rewrite Eg. cbn [obind].
    assert (Hinv : good src (@invalid_json shape c src i)) by (apply invalid_json_good; exact H).
    destruct n as [r off|t idx]; [|exact Hinv].
    destruct r; try exact Hinv.
    - (* array *)
      apply good_bind; [apply has_errors_good; exact H|]. intros _ _.
      destruct (kids_of_ok i H) as [kn [E Hk]]. rewrite E. cbn [obind].
      apply good_bind; [|intros; apply lift_infer_good].
      apply mapM_good. apply Forall_forall. intros k Hin. apply in_map_iff in Hin. destruct Hin as [[k' n'] [<- Hin]].
      apply filter_In in Hin. destruct Hin as [Hin _]. rewrite Forall_forall in Hk. destruct (Hk _ Hin) as [Hr _]. cbn [fst] in *.
      apply IH; lia.
    - exact I.
    - (* literal *)
      apply good_bind; [apply has_errors_good; exact H|]. intros _ _.
      destruct (children_ok src toks c W i H) as [ks [E Hr]]. rewrite E. cbn [obind].
      destruct ks as [|k ks]; [exact I|]. inversion Hr; subst. apply parse_token_good. unfold nlen. lia.
    - (* object *)
      apply good_bind; [apply has_errors_good; exact H|]. intros _ _.
      destruct (kids_of_ok i H) as [kn [E Hk]]. rewrite E. cbn [obind].
      apply good_bind; [|intros; exact I].
      apply fold_members_good. intros m ct Hin. apply in_map_iff in Hin. destruct Hin as [[k' n'] [<- Hin]].
      apply filter_In in Hin. destruct Hin as [Hin _]. rewrite Forall_forall in Hk. destruct (Hk _ Hin) as [Hr _]. cbn [fst] in *.
      apply parse_member_good; [lia|]. intros v Hv. apply IH; lia.
  Qed.

  Lemma first_err_child_ok : forall ks, Forall (fun k => k < nlen) ks ->
    exists r, first_err_child c src ks = Ok r /\ match r with Some k => k < nlen | None => True end.
  Proof.
    induction ks as [|k r IH]; intros H; [exists None; split; [reflexivity|exact I]|].
    inversion H as [|? ? Hk Hr]; subst. cbn [first_err_child].
    pose proof (has_errors_good k Hk) as G. destruct (has_errors c src k) as [u|e|]; [apply IH; exact Hr| |destruct G].
    exists (Some k). split; [reflexivity|exact Hk].
  Qed.

  Theorem parse_cst_good : good src (parse_cst c src).
  Proof.
    assert (H0 : 0 < nlen) by (pose proof (wf_root _ _ (we_wf _ _ _ W)); unfold nlen; lia).
    unfold parse_cst. destruct (get_ok c 0 H0) as [n [En Eg]]. rewrite Eg. cbn [obind].
    assert (Hinv : good src (@invalid_json shape c src 0)) by (apply invalid_json_good; exact H0).
    destruct n as [r off|t idx]; [|exact Hinv]. destruct r; try exact Hinv.
    apply good_bind; [apply has_errors_good; exact H0|]. intros _ _.
    destruct (kids_of_ok 0 H0) as [kn [E Hk]]. rewrite E. cbn [obind].
    destruct (Nat.ltb 1 (length (filter (fun x => negb (is_ws_node (snd x))) kn))).
    - destruct (first_err_child_ok (map fst kn)) as [r [Er Hr]].
      { apply Forall_forall. intros k Hin. apply in_map_iff in Hin. destruct Hin as [x [<- Hin]].
        rewrite Forall_forall in Hk. apply Hk in Hin. lia. }
      rewrite Er. cbn [obind]. destruct r as [k|]; [apply invalid_json_good; exact Hr|exact I].
    - destruct (filter (fun x => negb (is_ws_node (snd x))) kn) as [|x xs] eqn:Ef; [exact Hinv|].
      assert (Hin : In x kn).
      { assert (In x (filter (fun x => negb (is_ws_node (snd x))) kn)) by (rewrite Ef; left; reflexivity).
        apply filter_In in H. apply H. }
      rewrite Forall_forall in Hk. destruct (Hk _ Hin) as [Hr _].
      apply parse_rule_good; [lia|]. unfold nlen. lia.
  Qed.
End Walk2.
