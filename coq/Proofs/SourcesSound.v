(* SourcesSound.v — C01/C02 at the level of the entry points: every (conflict-free) source is a
   member of the shape inferred from the sources; adding a source only widens the shape;
   inference of duplicate-free sources succeeds; a reported superset is a real membership. *)
From Coq Require Import List Bool NArith Lia.
Import ListNotations.
From JS Require Import Model.Base Model.Shape Model.Sem Model.Subset Model.Merger Model.Infer Model.Api
  Proofs.BaseFacts Proofs.ShapeFacts Proofs.SemFacts Proofs.SubsetFacts Proofs.SubsetSound
  Proofs.MergerFacts Proofs.MergerSound Proofs.InferFacts Proofs.InferSound.

Lemma fold_merger_wf r : forall acc, wf acc = true -> Forall (fun s => wf s = true) r ->
  wf (fold_left merger r acc) = true.
Proof.
  induction r as [|s r IH]; intros acc Ha Hr; simpl; [exact Ha|].
  inversion Hr; subst. apply IH; [apply wf_merger; assumption|assumption].
Qed.

Lemma fold_merger_ub_acc r : forall acc x, wf acc = true -> Forall (fun s => wf s = true) r ->
  mem x acc = true -> mem x (fold_left merger r acc) = true.
Proof.
  induction r as [|s r IH]; intros acc x Ha Hr Hx; simpl; [exact Hx|].
  inversion Hr; subst. apply IH; [apply wf_merger; assumption|assumption|].
  apply merger_ub_l; assumption.
Qed.

Lemma fold_merger_ub_elem r : forall acc x s, wf acc = true -> Forall (fun s => wf s = true) r ->
  In s r -> mem x s = true -> mem x (fold_left merger r acc) = true.
Proof.
  induction r as [|s0 r IH]; intros acc x s Ha Hr Hin Hx; [contradiction|]. simpl.
  inversion Hr; subst. destruct Hin as [->|Hin].
  - apply fold_merger_ub_acc; [apply wf_merger; assumption|assumption|].
    apply merger_ub_r; assumption.
  - eapply IH; eauto. apply wf_merger; assumption.
Qed.

Lemma from_sources_tree_ok ds s : from_sources_tree ds = Ok s ->
  exists s0 r, mapM_o infer_text ds = Ok (s0 :: r) /\ s = fold_left merger r s0.
Proof.
  unfold from_sources_tree. destruct (mapM_o infer_text ds) as [ss| |]; try discriminate.
  destruct ss as [|s0 r]; simpl; [discriminate|]. intro H. inversion H. eauto.
Qed.

Lemma forall2_wf ds ss : Forall2 (fun x s => infer_text x = Ok s) ds ss -> Forall (fun s => wf s = true) ss.
Proof. induction 1; constructor; [eapply infer_text_wf; eassumption|assumption]. Qed.

Theorem sources_members ds s : from_sources_tree ds = Ok s ->
  forall d, In d ds -> conflict_free d = true -> mem d s = true.
Proof.
  intros H d Hin Hcf. destruct (from_sources_tree_ok _ _ H) as [s0 [r [E ->]]].
  apply mapM_o_ok in E. pose proof (forall2_wf _ _ E) as Hw. inversion Hw as [|? ? Hw0 Hwr]; subst.
  inversion E as [|d0 ? dr ? Hd0 Hdr]; subst.
  destruct Hin as [<-|Hin].
  - apply fold_merger_ub_acc; try assumption. apply infer_sound; assumption.
  - assert (exists sd, In sd r /\ infer_text d = Ok sd).
    { clear -Hdr Hin. induction Hdr as [|x sx l rs Hx Hr IHr]; [contradiction|].
      destruct Hin as [<-|Hin]; [exists sx; split; [left; reflexivity|exact Hx]|].
      destruct (IHr Hin) as [sd [H1 H2]]. exists sd. split; [right; exact H1|exact H2]. }
    destruct H0 as [sd [Hsd Hid]]. eapply fold_merger_ub_elem; eauto. apply infer_sound; assumption.
Qed.

Lemma mapM_o_app {Er A B} (f : A -> outcome Er B) l1 l2 ss1 ss2 :
  mapM_o f l1 = Ok ss1 -> mapM_o f l2 = Ok ss2 -> mapM_o f (l1 ++ l2) = Ok (ss1 ++ ss2).
Proof.
  revert ss1. induction l1 as [|x r IH]; intros ss1 H1 H2; simpl in *.
  - inversion H1. exact H2.
  - destruct (f x) as [s| |]; simpl in *; try discriminate.
    destruct (mapM_o f r) as [rs| |] eqn:E; simpl in *; try discriminate.
    inversion H1. subst. rewrite (IH rs eq_refl H2). reflexivity.
Qed.

Lemma mapM_o_app_inv {Er A B} (f : A -> outcome Er B) l1 l2 ss :
  mapM_o f (l1 ++ l2) = Ok ss -> exists ss1 ss2, mapM_o f l1 = Ok ss1 /\ mapM_o f l2 = Ok ss2 /\ ss = ss1 ++ ss2.
Proof.
  revert ss. induction l1 as [|x r IH]; intros ss H; simpl in *.
  - exists [], ss. auto.
  - destruct (f x) as [s| |]; simpl in *; try discriminate.
    destruct (mapM_o f (r ++ l2)) as [rs| |] eqn:E; simpl in *; try discriminate.
    inversion H. subst. destruct (IH rs eq_refl) as [ss1 [ss2 [H1 [H2 H3]]]].
    rewrite H1. simpl. exists (s :: ss1), ss2. subst. auto.
Qed.

(* feeding one more document never removes a previously admitted document *)
Theorem sources_monotone ds d s s' :
  from_sources_tree ds = Ok s -> from_sources_tree (ds ++ [d]) = Ok s' ->
  forall x, mem x s = true -> mem x s' = true.
Proof.
  intros H H' x Hx.
  destruct (from_sources_tree_ok _ _ H) as [s0 [r [E ->]]].
  destruct (from_sources_tree_ok _ _ H') as [s0' [r' [E' ->]]].
  destruct (mapM_o_app_inv _ _ _ _ E') as [ss1 [ss2 [H1 [H2 H3]]]].
  rewrite E in H1. inversion H1. subst ss1. simpl in H3. inversion H3. subst s0' r'.
  rewrite fold_left_app. simpl in H2.
  destruct (infer_text d) as [sd| |] eqn:Ed; simpl in H2; try discriminate. inversion H2. subst ss2. simpl.
  apply mapM_o_ok in E. pose proof (forall2_wf _ _ E) as Hw. inversion Hw; subst.
  apply merger_ub_l; [apply fold_merger_wf; assumption|eapply infer_text_wf; exact Ed|exact Hx].
Qed.

(* ---------- totality ---------- *)
Lemma array_text_total es : exists s, array_text es = Ok s.
Proof.
  unfold array_text. destruct (nonempty es && (len_eq1 es || all_adjacent_eq es)) eqn:E1.
  - destruct es; [discriminate|]. simpl. eauto.
  - destruct (len_gt1 es && forallb is_object es) eqn:E2.
    + apply andb_true_iff in E2. destruct E2 as [E2 E3]. destruct es as [|e r]; [discriminate|].
      simpl in E3. apply andb_true_iff in E3. destruct E3 as [E3 _].
      destruct e; try discriminate. simpl. eauto.
    + destruct (len_gt1 es); eauto.
Qed.

Theorem infer_total : forall d, nodup_keys d = true -> exists s, infer_text d = Ok s.
Proof.
  induction d as [| | | |l IH|m IH] using json_ind'; intro Hn; try (simpl; eauto; fail).
  - rewrite infer_text_arr. simpl in Hn.
    assert (exists es, mapM_o infer_text l = Ok es).
    { clear -IH Hn. rewrite forallb_forall in Hn. induction IH as [|x r Hx Hr IHr]; simpl; [eauto|].
      destruct (Hx (Hn x (or_introl eq_refl))) as [s Es]. rewrite Es. simpl.
      destruct IHr as [es Ees]; [intros y Hy; apply Hn; right; exact Hy|]. rewrite Ees. simpl. eauto. }
    destruct H as [es E]. rewrite E. simpl. apply array_text_total.
  - rewrite infer_text_obj.
    assert (G : forall m2 acc, Forall (fun kv => nodup_keys (snd kv) = true -> exists s, infer_text (snd kv) = Ok s) m2 ->
               (fix go (m : list (key * json)) : bool :=
                  match m with
                  | [] => true
                  | (k, v) :: r => negb (doc_has_key k r) && nodup_keys v && go r
                  end) m2 = true ->
               (forall k, doc_has_key k m2 = true -> map_get k acc = None) ->
               exists s, obj_loop infer_text m2 acc = Ok s).
    { clear. induction m2 as [|[k v] r IHm]; intros acc IH Hn Hfresh; simpl; [eauto|].
      inversion IH as [|? ? Hv Hr]; subst. simpl in Hv.
      apply andb_true_iff in Hn. destruct Hn as [Hn Hn3]. apply andb_true_iff in Hn. destruct Hn as [Hn1 Hn2].
      destruct (Hv Hn2) as [sv Esv]. rewrite Esv. simpl.
      rewrite (Hfresh k) by (simpl; rewrite key_eqb_refl; reflexivity).
      apply IHm; [exact Hr|exact Hn3|].
      intros k0 Hk0. rewrite map_get_insert.
      destruct (key_eqb k0 k) eqn:Ek.
      - apply key_eqb_eq in Ek. subst. apply negb_true_iff in Hn1. congruence.
      - apply Hfresh. simpl. rewrite Hk0. apply orb_true_r. }
    apply G; [exact IH|exact Hn|reflexivity].
Qed.

Theorem sources_succeed ds : ds <> [] -> Forall (fun d => nodup_keys d = true) ds ->
  exists s, from_sources_tree ds = Ok s.
Proof.
  intros Hne Hn. unfold from_sources_tree.
  assert (exists ss, mapM_o infer_text ds = Ok ss /\ length ss = length ds).
  { clear Hne. induction Hn as [|d r Hd Hr IH]; simpl; [exists []; auto|].
    destruct (infer_total d Hd) as [s Es]. rewrite Es. simpl.
    destruct IH as [ss [Ess Hl]]. rewrite Ess. simpl. exists (s :: ss). simpl. auto. }
  destruct H as [ss [Ess Hl]]. rewrite Ess.
  destruct ss as [|s0 r]; [destruct ds; [contradiction|discriminate]|]. simpl. eauto.
Qed.

(* ---------- C02: a reported superset is a real membership ---------- *)
Theorem superset_sound s d : wf s = true -> is_superset_tree s d = true -> conflict_free d = true ->
  mem d s = true.
Proof.
  intros Hw H Hcf. unfold is_superset_tree in H.
  destruct (infer_text d) as [sd| |] eqn:E; try discriminate.
  eapply is_subset_sound; [exact Hw|exact H|]. apply infer_sound; assumption.
Qed.

Theorem superset_checked_sound s d : wf s = true -> is_superset_checked_tree s d = Ok true ->
  conflict_free d = true -> mem d s = true.
Proof.
  intros Hw H Hcf. apply superset_sound; try assumption. unfold is_superset_checked_tree in H.
  unfold is_superset_tree. destruct (infer_text d); simpl in H; try discriminate. inversion H. reflexivity.
Qed.
