(* ReprFacts.v — C11 (first half): deserialising the serialisation gives the shape back. *)
From Coq Require Import List Bool NArith Lia Ascii String.
Import ListNotations.
From JS Require Import Model.Base Model.Shape Model.Repr
  Proofs.BaseFacts Proofs.ShapeFacts Proofs.MergerFacts.

Lemma de_null : de (ser SNull) = Some SNull.
Proof. reflexivity. Qed.

Lemma de_scalar o : de (ser (SBool o)) = Some (SBool o) /\ de (ser (SNumber o)) = Some (SNumber o) /\
                    de (ser (SString o)) = Some (SString o).
Proof. destruct o; repeat split; reflexivity. Qed.

Lemma de_array_variant tv o :
  de (variant "Array" [(bytes "type", tv); flag_obj o]) =
  match de tv with Some t => Some (SArray t o) | None => None end.
Proof. destruct o; reflexivity. Qed.

Lemma de_object_variant cm o :
  de (variant "Object" [(bytes "content", VObj cm); flag_obj o]) =
  match opt_all (map (fun kv => match de (snd kv) with Some s => Some (fst kv, s) | None => None end) cm) with
  | Some kvs => Some (SObject (fold_left (fun acc kv => map_insert (fst kv) (snd kv) acc) kvs []) o)
  | None => None
  end.
Proof. destruct o; reflexivity. Qed.

Lemma de_oneof_variant l o :
  de (variant "OneOf" [(bytes "variants", VArr l); flag_obj o]) =
  match opt_all (map de l) with
  | Some vs => Some (SOneOf (fold_left (fun acc x => sset_insert x acc) vs []) o)
  | None => None
  end.
Proof. destruct o; reflexivity. Qed.

Lemma de_tuple_variant l o :
  de (variant "Tuple" [(bytes "elements", VArr l); flag_obj o]) =
  match opt_all (map de l) with Some es => Some (STuple es o) | None => None end.
Proof. destruct o; reflexivity. Qed.

Lemma opt_all_map_de vs : Forall (fun v => de (ser v) = Some v) vs -> opt_all (map de (map ser vs)) = Some vs.
Proof. induction 1 as [|v r Hv Hr IH]; simpl; [reflexivity|]. rewrite Hv, IH. reflexivity. Qed.

Lemma opt_all_map_de_obj (c : list (key * shape)) : Forall (fun kv => de (ser (snd kv)) = Some (snd kv)) c ->
  opt_all (map (fun kv : text * jv => match de (snd kv) with Some s => Some (fst kv, s) | None => None end)
               (map (fun kv => (fst kv, ser (snd kv))) c)) = Some c.
Proof.
  induction 1 as [|[k v] r Hv Hr IH]; simpl; [reflexivity|]. simpl in Hv. rewrite Hv, IH. reflexivity.
Qed.

Lemma fold_map_insert_get {V} k (c : list (key * V)) : keys_sorted c = true -> forall acc,
  map_get k (fold_left (fun acc kv => map_insert (fst kv) (snd kv) acc) c acc) =
  match map_get k c with Some v => Some v | None => map_get k acc end.
Proof.
  induction c as [|[k1 v1] r IH]; intros Hs acc; simpl; [reflexivity|].
  apply keys_sorted_cons in Hs. destruct Hs as [Ha Hs]. rewrite (IH Hs), map_get_insert.
  destruct (key_eqb k k1) eqn:E; [|reflexivity].
  apply key_eqb_eq in E. subst k1. rewrite (keys_above_get _ _ Ha). reflexivity.
Qed.

Lemma fold_map_insert_sorted {V} (c : list (key * V)) : forall acc, keys_sorted acc = true ->
  keys_sorted (fold_left (fun acc kv => map_insert (fst kv) (snd kv) acc) c acc) = true.
Proof.
  induction c as [|[k1 v1] r IH]; intros acc Hs; simpl; [exact Hs|]. apply IH. apply keys_sorted_insert. exact Hs.
Qed.

Lemma fold_map_insert_id {V} (c : list (key * V)) : keys_sorted c = true ->
  fold_left (fun acc kv => map_insert (fst kv) (snd kv) acc) c [] = c.
Proof.
  intro Hs. apply map_ext; [apply fold_map_insert_sorted; reflexivity|exact Hs|].
  intro k. rewrite fold_map_insert_get by exact Hs. destruct (map_get k c); reflexivity.
Qed.

Lemma fold_sset_insert_id vs : sorted cmp vs = true -> fold_left (fun acc x => sset_insert x acc) vs [] = vs.
Proof.
  intro Hs. change (sset_union [] vs = vs). apply sset_ext; [apply sset_sorted_union; reflexivity|exact Hs|].
  intro z. rewrite sset_union_In. simpl. tauto.
Qed.

Theorem de_ser : forall s, wf s = true -> de (ser s) = Some s.
Proof.
  induction s as [|o|o|o|t o IH|c o IH|vs o IH|es o IH] using shape_ind'; intro Hw.
  - reflexivity.
  - apply de_scalar.
  - apply de_scalar.
  - apply de_scalar.
  - simpl in Hw. change (ser (SArray t o)) with (variant "Array" [(bytes "type", ser t); flag_obj o]).
    rewrite de_array_variant, (IH Hw). reflexivity.
  - apply wf_object in Hw. destruct Hw as [Hs Hwv].
    change (ser (SObject c o)) with
      (variant "Object" [(bytes "content", VObj (map (fun kv => (fst kv, ser (snd kv))) c)); flag_obj o]).
    rewrite de_object_variant, opt_all_map_de_obj.
    + rewrite fold_map_insert_id by exact Hs. reflexivity.
    + rewrite Forall_forall in *. intros kv Hin. apply IH; auto.
  - apply wf_oneof in Hw. destruct Hw as [Hs Hwv].
    change (ser (SOneOf vs o)) with (variant "OneOf" [(bytes "variants", VArr (map ser vs)); flag_obj o]).
    rewrite de_oneof_variant, opt_all_map_de.
    + rewrite fold_sset_insert_id by exact Hs. reflexivity.
    + rewrite Forall_forall in *. intros v Hin. apply IH; auto.
  - apply wf_tuple in Hw.
    change (ser (STuple es o)) with (variant "Tuple" [(bytes "elements", VArr (map ser es)); flag_obj o]).
    rewrite de_tuple_variant, opt_all_map_de; [reflexivity|].
    rewrite Forall_forall in *. intros v Hin. apply IH; auto.
Qed.

(* serialisation is a function of the shape: determinism is definitional in the model; the
   text is determined by the value *)
Theorem ser_text_deterministic : forall s s', s = s' -> ser_text s = ser_text s'.
Proof. intros s s' ->. reflexivity. Qed.

(* different shapes never share a serialisation *)
Theorem ser_injective : forall s s', wf s = true -> wf s' = true -> ser s = ser s' -> s = s'.
Proof.
  intros s s' H H' E. pose proof (de_ser s H) as D. rewrite E, (de_ser s' H') in D. inversion D. reflexivity.
Qed.
