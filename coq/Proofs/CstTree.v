(* CstTree.v — the concrete syntax tree as a TREE (the flat node vector of Model/Parser.v is
   its pre-order), the tokens it spans, and the relation [jv] "tree t is the CST of document
   d": the shape the lelwel parser gives to a grammatical token list (trailing skipped
   tokens of a rule's last token are siblings of the rule, not children).
   Used as the interface between the three completeness stages:
     lexer   : json_text s d  ->  exists t, jfile s d t /\ tokens = ctoks t      (LexComplete.v)
     parser  : jfile s d t    ->  parse_tokens (ctoks t) = cflat 0 t, silent      (ParseComplete.v)
     walk    : jfile s d t    ->  parse_cst (cflat 0 t) = lift (infer_text d)     (WalkComplete.v) *)
From Coq Require Import List Bool Arith NArith Lia.
Import ListNotations.
From JS Require Import Model.Base Model.Shape Model.Sem Model.Lexer Model.Parser Model.Walk Model.JsonRef
  Proofs.TextFacts.

Inductive ct : Type :=
| CT (t : tok) (sp : span)
| CR (r : rule) (ks : list ct).

Section CtInd.
  Variable P : ct -> Prop.
  Hypothesis HT : forall t sp, P (CT t sp).
  Hypothesis HR : forall r ks, Forall P ks -> P (CR r ks).
  Fixpoint ct_ind' (t : ct) : P t :=
    match t with
    | CT t sp => HT t sp
    | CR r ks => HR r ks ((fix go (ks : list ct) : Forall P ks :=
                             match ks with
                             | [] => Forall_nil _
                             | k :: r => Forall_cons k (ct_ind' k) (go r)
                             end) ks)
    end.
End CtInd.

(* number of nodes *)
Fixpoint csize (t : ct) : nat :=
  match t with
  | CT _ _ => 1
  | CR _ ks => S (list_sum (map csize ks))
  end.
Definition fsize (ks : list ct) : nat := list_sum (map csize ks).

(* the tokens in order *)
Fixpoint ctoks (t : ct) : list (tok * span) :=
  match t with
  | CT t sp => [(t, sp)]
  | CR _ ks => flat_map ctoks ks
  end.
Definition cstoks (ks : list ct) : list (tok * span) := flat_map ctoks ks.

(* pre-order node vector; b = index of the first token *)
Fixpoint cflat (b : nat) (t : ct) : list node :=
  match t with
  | CT t _ => [NTok t b]
  | CR r ks =>
      NRule r (list_sum (map csize ks)) ::
      (fix go (b : nat) (ks : list ct) : list node :=
         match ks with
         | [] => []
         | k :: r => cflat b k ++ go (b + length (ctoks k)) r
         end) b ks
  end.
Fixpoint cflats (b : nat) (ks : list ct) : list node :=
  match ks with
  | [] => []
  | k :: r => cflat b k ++ cflats (b + length (ctoks k)) r
  end.

Lemma cflat_CR b r ks : cflat b (CR r ks) = NRule r (fsize ks) :: cflats b ks.
Proof.
  reflexivity.
Qed.

Lemma fsize_app a b : fsize (a ++ b) = fsize a + fsize b.
Proof. unfold fsize. rewrite map_app, list_sum_app. reflexivity. Qed.
Lemma fsize_cons k ks : fsize (k :: ks) = csize k + fsize ks.
Proof. reflexivity. Qed.
Lemma cstoks_app a b : cstoks (a ++ b) = cstoks a ++ cstoks b.
Proof. unfold cstoks. apply flat_map_app. Qed.
Lemma cstoks_cons k ks : cstoks (k :: ks) = ctoks k ++ cstoks ks.
Proof. reflexivity. Qed.
Lemma ctoks_CR r ks : ctoks (CR r ks) = cstoks ks.
Proof. reflexivity. Qed.

Lemma cflats_app : forall a b c, cflats b (a ++ c) = cflats b a ++ cflats (b + length (cstoks a)) c.
Proof.
  induction a as [|k a IH]; intros b c.
  - cbn. rewrite Nat.add_0_r. reflexivity.
  - cbn [app cflats]. rewrite IH, cstoks_cons, app_length, <- app_assoc. do 3 f_equal. lia.
Qed.

Lemma cflat_length : forall t b, length (cflat b t) = csize t.
Proof.
  induction t as [t sp|r ks IH] using ct_ind'; intros b; [reflexivity|].
  rewrite cflat_CR. cbn [length csize]. f_equal. fold (fsize ks).
  revert b. induction IH as [|k ks Hk _ IHks]; intros b; [reflexivity|].
  cbn [cflats]. rewrite app_length, Hk, IHks. reflexivity.
Qed.

Lemma cflats_length : forall ks b, length (cflats b ks) = fsize ks.
Proof.
  induction ks as [|k ks IH]; intros b; [reflexivity|].
  cbn [cflats]. rewrite app_length, cflat_length, IH. reflexivity.
Qed.

(* ---------- whitespace forests ---------- *)
Definition wsctb (k : ct) : bool :=
  match k with CT TWhitespace _ | CT TNewline _ => true | _ => false end.
Definition wsf (w : list ct) : Prop := Forall (fun k => wsctb k = true) w.

Lemma wsf_nil : wsf [].
Proof. constructor. Qed.
Lemma wsf_app a b : wsf a -> wsf b -> wsf (a ++ b).
Proof. intros Ha Hb. apply Forall_app. split; assumption. Qed.

Lemma wsf_fsize w : wsf w -> fsize w = length w.
Proof.
  induction 1 as [|k w Hk _ IH]; [reflexivity|]. rewrite fsize_cons, IH.
  destruct k as [t sp|r ks]; [reflexivity|discriminate Hk].
Qed.
Lemma wsf_toks_length w : wsf w -> length (cstoks w) = length w.
Proof.
  induction 1 as [|k w Hk _ IH]; [reflexivity|]. rewrite cstoks_cons, app_length, IH.
  destruct k as [t sp|r ks]; [reflexivity|discriminate Hk].
Qed.
Lemma wsf_skipped w : wsf w -> Forall (fun ts => is_skipped (fst ts) = true) (cstoks w).
Proof.
  induction 1 as [|k w Hk _ IH]; [constructor|]. rewrite cstoks_cons.
  destruct k as [t sp|r ks]; [|discriminate Hk]. cbn [ctoks app]. constructor; [|exact IH].
  destruct t; try discriminate Hk; reflexivity.
Qed.

(* ---------- the CST of a document ---------- *)
Section JV.
  Variable src : list char.

  (* the String token at span sp is the member name k: the source text there is
     quote body quote and k is the name that body denotes ([raw_key], Model/JsonRef.v) *)
  Definition key_at (sp : span) (k : key) : Prop :=
    exists body, k = raw_key body /\ faithful src sp (34%N :: body ++ [34%N]).

  Definition member_ct (spk : span) (w1 : list ct) (spc : span) (w2 : list ct) (v : ct) : ct :=
    CR RMember (CT TString spk :: w1 ++ CT TColon spc :: w2 ++ [v]).

  Inductive jv : json -> ct -> Prop :=
  | jv_null sp : jv JNull (CR RLiteral [CT TNull sp])
  | jv_true sp : jv JBool (CR RLiteral [CR RBoolean [CT TTrue sp]])
  | jv_false sp : jv JBool (CR RLiteral [CR RBoolean [CT TFalse sp]])
  | jv_num sp : jv JNum (CR RLiteral [CT TNumber sp])
  | jv_str sp : jv JStr (CR RLiteral [CT TString sp])
  | jv_arr0 sp1 w sp2 : wsf w -> jv (JArr []) (CR RArray (CT TLBrak sp1 :: w ++ [CT TRBrak sp2]))
  | jv_arr sp1 w l ks sp2 : wsf w -> jels l ks ->
      jv (JArr l) (CR RArray (CT TLBrak sp1 :: w ++ ks ++ [CT TRBrak sp2]))
  | jv_obj0 sp1 w sp2 : wsf w -> jv (JObj []) (CR RObject (CT TLBrace sp1 :: w ++ [CT TRBrace sp2]))
  | jv_obj sp1 w m ks sp2 : wsf w -> jmems m ks ->
      jv (JObj m) (CR RObject (CT TLBrace sp1 :: w ++ ks ++ [CT TRBrace sp2]))
  with jels : list json -> list ct -> Prop :=
  | jels_one d v w : jv d v -> wsf w -> jels [d] (v :: w)
  | jels_cons d v w sp w' l ks : jv d v -> wsf w -> wsf w' -> jels l ks ->
      jels (d :: l) (v :: w ++ CT TComma sp :: w' ++ ks)
  with jmems : list (key * json) -> list ct -> Prop :=
  | jmems_one k d spk w1 spc w2 v w : key_at spk k -> wsf w1 -> wsf w2 -> jv d v -> wsf w ->
      jmems [(k, d)] (member_ct spk w1 spc w2 v :: w)
  | jmems_cons k d spk w1 spc w2 v w sp w' m ks : key_at spk k -> wsf w1 -> wsf w2 -> jv d v ->
      wsf w -> wsf w' -> jmems m ks ->
      jmems ((k, d) :: m) (member_ct spk w1 spc w2 v :: w ++ CT TComma sp :: w' ++ ks).

  Inductive jfile : json -> ct -> Prop :=
  | jfile_intro d w1 v w2 : wsf w1 -> jv d v -> wsf w2 -> jfile d (CR RFile (w1 ++ v :: w2)).
End JV.

Scheme jv_mind := Minimality for jv Sort Prop
  with jels_mind := Minimality for jels Sort Prop
  with jmems_mind := Minimality for jmems Sort Prop.
Combined Scheme jv_mutind from jv_mind, jels_mind, jmems_mind.
