(* C01 — every source document conforms to the shape inferred from the sources; adding a
   source never removes a document.  Property theorems only (proofs live in Proofs/). *)
From Coq Require Import List Bool NArith.
Import ListNotations.
From JS Require Import Model.Base Model.Shape Model.Sem Model.Merger Model.Infer Model.Api
  Model.JsonRef Proofs.MergerSound Proofs.MergerFacts Proofs.InferSound Proofs.SourcesSound Proofs.InferTotal.
From JS Require Import Model.Lexer Model.Walk Model.TextApi Model.JsonRef Proofs.TextComplete Proofs.TextLift.

(* the pairwise merge is an upper bound of both operands, for ALL well-formed shapes *)
Theorem C01_merger_upper_bound : forall a b, wf a = true -> wf b = true ->
  (forall d, mem d a = true -> mem d (merger a b) = true) /\
  (forall d, mem d b = true -> mem d (merger a b) = true).
Proof. exact merger_ub. Qed.
Print Assumptions C01_merger_upper_bound.

Theorem C01_merger_preserves_wf : forall a b, wf a = true -> wf b = true -> wf (merger a b) = true.
Proof. exact wf_merger. Qed.
Print Assumptions C01_merger_preserves_wf.

(* single documents: sound outside the known class KF1 (conflict_free), total on duplicate-free documents *)
Theorem C01_infer_sound : forall d, conflict_free d = true -> forall s, infer_text d = Ok s -> mem d s = true.
Proof. exact infer_sound. Qed.
Print Assumptions C01_infer_sound.

(* total on every document without CONFLICTING duplicate member names (repetitions whose values
   are inferred alike are accepted) — the quantifier of the property; duplicate-free documents
   are a special case *)
Theorem C01_infer_total : forall d, dup_consistent d = true -> exists s, infer_text d = Ok s.
Proof. exact infer_total_dup. Qed.
Print Assumptions C01_infer_total.

Theorem C01_nodup_is_consistent : forall d, nodup_keys d = true -> dup_consistent d = true.
Proof. exact nodup_dup_consistent. Qed.
Print Assumptions C01_nodup_is_consistent.

(* sequences of sources, any length / order / repetitions *)
Theorem C01_sources_succeed : forall ds, ds <> [] -> Forall (fun d => dup_consistent d = true) ds ->
  exists s, from_sources_tree ds = Ok s.
Proof. exact sources_succeed_dup. Qed.
Print Assumptions C01_sources_succeed.

(* the carve-out is on the failing document itself: a conflicted neighbour never costs
   another source its membership *)
Theorem C01_sources_members : forall ds s, from_sources_tree ds = Ok s ->
  forall d, In d ds -> conflict_free d = true -> mem d s = true.
Proof. exact sources_members. Qed.
Print Assumptions C01_sources_members.

Theorem C01_monotone : forall ds d s s', from_sources_tree ds = Ok s ->
  from_sources_tree (ds ++ [d]) = Ok s' -> forall x, mem x s = true -> mem x s' = true.
Proof. exact sources_monotone. Qed.
Print Assumptions C01_monotone.

(* KF1: the full statement (without conflict_free) is false of the faithful model:
   [{"a":1},{"a":"x"}] is inferred as Array<Object{a: Number}>, which rejects it. *)
Definition kf1_doc : json := JArr [JObj [([97%N], JNum)]; JObj [([97%N], JStr)]].
Theorem C01_kf1_refuted : exists d s, nodup_keys d = true /\ infer_text d = Ok s /\ mem d s = false.
Proof. exists kf1_doc. eexists. vm_compute. repeat split. Qed.
Print Assumptions C01_kf1_refuted.

(* non-vacuity: a nested conflict-free sequence meets the hypotheses *)
(* ---------- the same statements for the TEXT entry points (JsonShape::from_sources on strings) ----------
   [text_of s d]: s is an RFC 8259 text (inductive grammar of Model/JsonRef.v) of the tree d, nesting <= 256.
   On such texts the text pipeline (lexer, recovering parser, CST walk) IS the tree-level function
   (Proofs/TextComplete.v), so the theorems above hold of from_sources_m with the current configuration. *)
Theorem C01_text_sources_members : forall srcs ds sh, Forall2 text_of srcs ds ->
  from_sources_m cfg_now srcs = Ok sh ->
  forall d, In d ds -> conflict_free d = true -> mem d sh = true.
Proof. exact text_sources_members. Qed.
Print Assumptions C01_text_sources_members.

Theorem C01_text_sources_succeed : forall srcs ds, Forall2 text_of srcs ds -> ds <> [] ->
  Forall (fun d => dup_consistent d = true) ds -> exists sh, from_sources_m cfg_now srcs = Ok sh.
Proof. exact text_sources_succeed. Qed.
Print Assumptions C01_text_sources_succeed.

Theorem C01_text_monotone : forall srcs ds s d sh sh', Forall2 text_of srcs ds -> text_of s d ->
  from_sources_m cfg_now srcs = Ok sh -> from_sources_m cfg_now (srcs ++ [s]) = Ok sh' ->
  forall x, mem x sh = true -> mem x sh' = true.
Proof. exact text_sources_monotone. Qed.
Print Assumptions C01_text_monotone.

Example C01_nonvacuous :
  let ds := [JArr [JObj [([97%N], JNum); ([98%N], JArr [])]; JObj [([97%N], JNum)]];
             JArr [JNum; JStr]; JNull] in
  forallb conflict_free ds = true /\ forallb nodup_keys ds = true /\
  (match from_sources_tree ds with Ok s => forallb (fun d => mem d s) ds | _ => false end) = true.
Proof. vm_compute. repeat split. Qed.
