(* C15 — generated types deserialize the documents they were generated from.
   Property theorems only (proofs in Proofs/GenSerde.v).  The serde model (Model/Gen.v
   deser / reser / approx) is an EXTERNAL library's behaviour: modelled for exactly the
   generated item forms and validated against the real serde_derive + serde_json by
   compiling and running batches (tools/props/C15.py, thorough tier).

   Full statement, kept visible (sources = members of the inferred shape):
     forall s d, wf s = true -> wf_items (first_pass s) = true -> mem d s = true ->
       exists v, deser_root fuel (first_pass s) d = Some v /\ approx d (reser v) = true
   It is FALSE of the code as it is; each failing class has a witness below.  The strongest
   true statement is the carve-out theorem C15_deser_sources_partial, proved for ALL shapes
   in the decidable class
     c15_class = good_names /\ decodable /\ serde_ok
   (serde_ok: OneOf-free, every member name is its own snake_case form, no Null-typed member,
   no empty object) and all documents without a repeated member name, by structural
   induction.  The same extracted predicates decide KNOWN-FINDING vs VIOLATION at run time. *)
From Coq Require Import String.
From Coq Require Import List Bool NArith.
Import ListNotations.
From JS Require Import Model.Base Model.Shape Model.Sem Model.Gen Proofs.GenSerde Proofs.GenSerdeSound Proofs.GenFixes.

Theorem C15_deser_sources_partial : forall s d,
  c15_class s = true -> nodup_keys d = true -> mem d s = true ->
  forall fuel, 2 * depth s + 2 <= fuel ->
  exists v, deser_root fuel (first_pass s) d = Some v /\ approx d (reser v) = true.
Proof. exact deser_sources. Qed.
Print Assumptions C15_deser_sources_partial.

(* the same statement for the REPAIRED (deduplicating) emission, SWITCH(F15) := first_pass_f15 *)
Theorem C15_deser_sources_after_F15 : forall s d,
  c15_class s = true -> nodup_keys d = true -> mem d s = true ->
  forall fuel, 2 * depth s + 2 <= fuel ->
  exists v, deser_root fuel (first_pass_f15 s) d = Some v /\ approx d (reser v) = true.
Proof. exact deser_sources_f15. Qed.
Print Assumptions C15_deser_sources_after_F15.

Theorem C15_oneof_refuted : exists s d,
  wf s = true /\ wf_items (first_pass s) = true /\ mem d s = true /\ roundtrips s d = false.
Proof. exists c15_oneof, JNum. repeat split. Qed.
Print Assumptions C15_oneof_refuted.

Theorem C15_rename_refuted : exists s d,
  wf s = true /\ wf_items (first_pass s) = true /\ mem d s = true /\ roundtrips s d = false.
Proof. exists c15_rename, c15_rename_doc. repeat split. Qed.
Print Assumptions C15_rename_refuted.

Theorem C15_null_member_refuted : exists s d,
  wf s = true /\ wf_items (first_pass s) = true /\ mem d s = true /\ roundtrips s d = false.
Proof. exists c15_null_member, (JObj []). repeat split. Qed.
Print Assumptions C15_null_member_refuted.

Theorem C15_root_flag_refuted : exists s d,
  wf s = true /\ wf_items (first_pass s) = true /\ mem d s = true /\ roundtrips s d = false.
Proof. exists c15_root_flag, JNull. repeat split. Qed.
Print Assumptions C15_root_flag_refuted.

Theorem C15_empty_object_refuted : exists s d,
  wf s = true /\ wf_items (first_pass s) = true /\ mem d s = true /\ roundtrips s d = false.
Proof. exists c15_empty_object, (JObj []). repeat split. Qed.
Print Assumptions C15_empty_object_refuted.

Theorem C15_dup_key_refuted : exists s d,
  wf s = true /\ wf_items (first_pass s) = true /\ mem d s = true /\ c15_class s = true /\
  nodup_keys d = false /\ roundtrips s d = false.
Proof. exists c15_dup, c15_dup_doc. repeat split. Qed.
Print Assumptions C15_dup_key_refuted.

(* non-vacuity of the class and of the model: the fixture shape without its Null member and
   non-snake key is in c15_class and its (kinds-only) source round-trips; absent optional
   members come back as explicit nulls *)
Definition c15_ok_shape : shape :=
  SObject [(txt "array", SArray (SNumber false) false);
           (txt "array_of_maps", SArray (SObject [(txt "a", SString false); (txt "b", SBool true);
                                                  (txt "c", SNumber true)] false) false);
           (txt "map", SObject [(txt "a", SString false); (txt "c", SNumber false)] false);
           (txt "tuple", STuple [SNumber false; SString false; SBool false] true)] false.
Definition c15_ok_doc : json :=
  JObj [(txt "tuple", JNull); (txt "array", JArr [JNum; JNum]);
        (txt "array_of_maps", JArr [JObj [(txt "a", JStr); (txt "c", JNum)]; JObj [(txt "a", JStr); (txt "b", JBool)]]);
        (txt "map", JObj [(txt "c", JNum); (txt "a", JStr)])].
Example C15_nonvacuous :
  c15_class c15_ok_shape = true /\ nodup_keys c15_ok_doc = true /\ mem c15_ok_doc c15_ok_shape = true /\
  roundtrips c15_ok_shape c15_ok_doc = true.
Proof. vm_compute. repeat split. Qed.
