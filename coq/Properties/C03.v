(* C03 — a shape accepts every sample it was inferred from. *)
From Coq Require Import List Bool NArith.
Import ListNotations.
From JS Require Import Model.Base Model.Shape Model.Sem Model.Subset Model.Merger Model.Infer Model.Api
  Proofs.SubsetFacts Proofs.SupersetFacts Proofs.SupersetFragment Model.OneOfClass Proofs.SupersetScalar.
From JS Require Import Model.Lexer Model.Walk Model.TextApi Model.JsonRef Proofs.TextComplete Proofs.TextLift Proofs.TextLiftScalar.

Theorem C03_self : forall s, wf s = true -> is_subset s s = true.
Proof. exact subset_refl. Qed.
Print Assumptions C03_self.

(* n = 1: a shape inferred from one document accepts it, in both forms *)
Theorem C03_single_source : forall d s, from_sources_tree [d] = Ok s ->
  is_superset_tree s d = true /\ is_superset_checked_tree s d = Ok true.
Proof. exact single_source_superset. Qed.
Print Assumptions C03_single_source.

(* any number of sources, whenever the merged shape contains no OneOf: every source is accepted,
   in all three forms the property lists *)
Theorem C03_oneof_free_subset : forall ds m, from_sources_tree ds = Ok m -> oneof_free m = true ->
  forall d sd, In d ds -> infer_text d = Ok sd -> is_subset sd m = true.
Proof. exact sources_accept_free. Qed.
Print Assumptions C03_oneof_free_subset.

Theorem C03_oneof_free_superset : forall ds m, from_sources_tree ds = Ok m -> oneof_free m = true ->
  forall d, In d ds -> is_superset_tree m d = true /\ is_superset_checked_tree m d = Ok true.
Proof. exact sources_superset_free. Qed.
Print Assumptions C03_oneof_free_superset.

(* The wider class [scalar_oneofs] (Model/OneOfClass.v): every OneOf node of the merged shape is a union of
   non-optional scalar kinds -- the README's `T + U = OneOf[T | U]` -- with either value of its own flag,
   anywhere in the shape (member of an object, element type of an array obtained from a tuple, root).
   It contains the OneOf-free class strictly; all three forms of the property hold on it. *)
Theorem C03_scalar_class_contains_free : forall s, oneof_free s = true -> scalar_oneofs s = true.
Proof. exact oneof_free_scalar_oneofs. Qed.
Print Assumptions C03_scalar_class_contains_free.

Theorem C03_scalar_oneofs_subset : forall ds m, from_sources_tree ds = Ok m -> scalar_oneofs m = true ->
  forall d sd, In d ds -> infer_text d = Ok sd -> is_subset sd m = true.
Proof. exact sources_accept_scalar. Qed.
Print Assumptions C03_scalar_oneofs_subset.

Theorem C03_scalar_oneofs_superset : forall ds m, from_sources_tree ds = Ok m -> scalar_oneofs m = true ->
  forall d, In d ds -> is_superset_tree m d = true /\ is_superset_checked_tree m d = Ok true.
Proof. exact sources_superset_scalar. Qed.
Print Assumptions C03_scalar_oneofs_superset.

(* the two lemmas that carry it: a merge whose result is in the class accepts both operands (any wf operands),
   and acceptance is transitive below a shape of the class *)
Theorem C03_merge_accepts_operands : forall a b, wf a = true -> wf b = true -> scalar_oneofs (merger a b) = true ->
  is_subset a (merger a b) = true /\ is_subset b (merger a b) = true.
Proof. exact merger_dominates_scalar. Qed.
Print Assumptions C03_merge_accepts_operands.

Theorem C03_subset_trans_scalar : forall a b c, wf c = true -> scalar_oneofs c = true ->
  is_subset a b = true -> is_subset b c = true -> is_subset a c = true.
Proof. exact subset_trans_scalar'. Qed.
Print Assumptions C03_subset_trans_scalar.

Example C03_scalar_class_nonvacuous : exists ds m, from_sources_tree ds = Ok m /\ scalar_oneofs m = true /\ oneof_free m = false.
Proof. exact scalar_class_nontrivial. Qed.

(* PARTIAL beyond that class. Full statement (false of the faithful model, see below):
     forall ds s, from_sources_tree ds = Ok s -> forall d, In d ds ->
       is_superset_tree s d = true /\ is_superset_checked_tree s d = Ok true /\
       (forall sd, infer_text d = Ok sd -> is_subset sd s = true).
   KF2: is_subset is incomplete against OneOf forms (exact-match contains tests, the Null arm looks
   only at the optional flag), so the merged shape of [true, null, 1] rejects its own source null. *)
Theorem C03_kf2_refuted : exists ds s d, from_sources_tree ds = Ok s /\ In d ds /\
  scalar_oneofs s = false /\ is_superset_tree s d = false.
Proof.
  exists [JBool; JNull; JNum]. eexists. exists JNull. vm_compute. repeat split. right. left. reflexivity.
Qed.
Print Assumptions C03_kf2_refuted.

(* the class cannot simply be widened to "no Null variant, no optional variant": with an Array variant whose element
   type was merged later, [1], [null], "s" gives OneOf[String | Array<Option<Number>>], which rejects [1] *)
Theorem C03_wider_class_refuted : exists ds s d, from_sources_tree ds = Ok s /\ In d ds /\
  nonopt_variants s = true /\ scalar_oneofs s = false /\ is_superset_tree s d = false.
Proof.
  exists [JArr [JNum]; JArr [JNull]; JStr]. eexists. exists (JArr [JNum]). vm_compute. repeat split. left. reflexivity.
Qed.
Print Assumptions C03_wider_class_refuted.

(* on TEXTS: a OneOf-free shape inferred from source texts accepts every one of them, both forms *)
Theorem C03_text_oneof_free : forall srcs ds sh, Forall2 text_of srcs ds ->
  from_sources_m cfg_now srcs = Ok sh -> oneof_free sh = true ->
  forall s d, text_of s d -> In d ds ->
  is_superset_m cfg_now sh s = Ok true /\ is_superset_checked_m cfg_now sh s = Ok true.
Proof. exact text_sources_accept_free. Qed.
Print Assumptions C03_text_oneof_free.

Theorem C03_text_scalar_oneofs : forall srcs ds sh, Forall2 text_of srcs ds ->
  from_sources_m cfg_now srcs = Ok sh -> scalar_oneofs sh = true ->
  forall s d, text_of s d -> In d ds ->
  is_superset_m cfg_now sh s = Ok true /\ is_superset_checked_m cfg_now sh s = Ok true.
Proof. exact text_sources_accept_scalar. Qed.
Print Assumptions C03_text_scalar_oneofs.

Example C03_nonvacuous :
  let d := JObj [([97%N], JArr [JNum; JStr]); ([98%N], JArr [])] in
  exists s, from_sources_tree [d] = Ok s /\ is_superset_tree s d = true.
Proof. eexists. vm_compute. split; reflexivity. Qed.
