(* C03 — a shape accepts every sample it was inferred from. *)
From Coq Require Import List Bool NArith.
Import ListNotations.
From JS Require Import Model.Base Model.Shape Model.Sem Model.Subset Model.Infer Model.Api
  Proofs.SubsetFacts Proofs.SupersetFacts Proofs.SupersetFragment.
From JS Require Import Model.Lexer Model.Walk Model.TextApi Model.JsonRef Proofs.TextComplete Proofs.TextLift.

Theorem C03_self : forall s, wf s = true -> is_subset s s = true.
Proof. exact subset_refl. Qed.
Print Assumptions C03_self.

(* n = 1: a shape inferred from one document accepts it, in both forms *)
Theorem C03_single_source : forall d s, from_sources_tree [d] = Ok s ->
  is_superset_tree s d = true /\ is_superset_checked_tree s d = Ok true.
Proof. exact single_source_superset. Qed.
Print Assumptions C03_single_source.

(* any number of sources, whenever the merged shape contains no OneOf: every source is accepted,
   in all three forms the property lists *)
Theorem C03_oneof_free_subset : forall ds m, from_sources_tree ds = Ok m -> oneof_free m = true ->
  forall d sd, In d ds -> infer_text d = Ok sd -> is_subset sd m = true.
Proof. exact sources_accept_free. Qed.
Print Assumptions C03_oneof_free_subset.

Theorem C03_oneof_free_superset : forall ds m, from_sources_tree ds = Ok m -> oneof_free m = true ->
  forall d, In d ds -> is_superset_tree m d = true /\ is_superset_checked_tree m d = Ok true.
Proof. exact sources_superset_free. Qed.
Print Assumptions C03_oneof_free_superset.

(* PARTIAL beyond that class. Full statement (false of the faithful model, see below):
     forall ds s, from_sources_tree ds = Ok s -> forall d, In d ds ->
       is_superset_tree s d = true /\ is_superset_checked_tree s d = Ok true /\
       (forall sd, infer_text d = Ok sd -> is_subset sd s = true).
   KF2: is_subset is incomplete against OneOf forms (exact-match contains tests, the Null arm looks
   only at the optional flag), so the merged shape of [true, null, 1] rejects its own source null. *)
Theorem C03_kf2_refuted : exists ds s d, from_sources_tree ds = Ok s /\ In d ds /\
  oneof_free s = false /\ is_superset_tree s d = false.
Proof.
  exists [JBool; JNull; JNum]. eexists. exists JNull. vm_compute. repeat split. right. left. reflexivity.
Qed.
Print Assumptions C03_kf2_refuted.

(* on TEXTS: a OneOf-free shape inferred from source texts accepts every one of them, both forms *)
Theorem C03_text_oneof_free : forall srcs ds sh, Forall2 text_of srcs ds ->
  from_sources_m cfg_now srcs = Ok sh -> oneof_free sh = true ->
  forall s d, text_of s d -> In d ds ->
  is_superset_m cfg_now sh s = Ok true /\ is_superset_checked_m cfg_now sh s = Ok true.
Proof. exact text_sources_accept_free. Qed.
Print Assumptions C03_text_oneof_free.

Example C03_nonvacuous :
  let d := JObj [([97%N], JArr [JNum; JStr]); ([98%N], JArr [])] in
  exists s, from_sources_tree [d] = Ok s /\ is_superset_tree s d = true.
Proof. eexists. vm_compute. split; reflexivity. Qed.
