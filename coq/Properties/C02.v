(* C02 — validation never accepts what the shape does not admit. *)
From Coq Require Import List Bool NArith.
Import ListNotations.
From JS Require Import Model.Base Model.Shape Model.Sem Model.Subset Model.Infer Model.Api
  Proofs.SubsetSound Proofs.SourcesSound.
From JS Require Import Model.Lexer Model.Walk Model.TextApi Model.JsonRef Proofs.TextComplete Proofs.TextLift.

Theorem C02_subset_sound : forall a b, wf b = true -> is_subset a b = true ->
  forall d, mem d a = true -> mem d b = true.
Proof. exact is_subset_sound. Qed.
Print Assumptions C02_subset_sound.

(* the superset queries: accepted text (as a parsed document) is a member of the shape;
   the document-level carve-out KF1 is inherited from single-document inference *)
Theorem C02_superset_sound : forall s d, wf s = true -> is_superset_tree s d = true ->
  conflict_free d = true -> mem d s = true.
Proof. exact superset_sound. Qed.
Print Assumptions C02_superset_sound.

Theorem C02_superset_checked_sound : forall s d, wf s = true ->
  is_superset_checked_tree s d = Ok true -> conflict_free d = true -> mem d s = true.
Proof. exact superset_checked_sound. Qed.
Print Assumptions C02_superset_checked_sound.

(* KF1 again, seen through is_superset: the shape inferred from [{"a":1},{"a":"x"}] reports
   itself a superset of that text although it does not admit it *)
Definition kf1_doc : json := JArr [JObj [([97%N], JNum)]; JObj [([97%N], JStr)]].
Theorem C02_kf1_refuted : exists s d, wf s = true /\ is_superset_tree s d = true /\ mem d s = false.
Proof. exists (SArray (SObject [([97%N], SNumber false)] false) false), kf1_doc. vm_compute. repeat split. Qed.
Print Assumptions C02_kf1_refuted.

(* the superset queries on TEXTS (is_superset / is_superset_checked of lib.rs) *)
Theorem C02_text_superset_sound : forall sh s d, text_of s d -> wf sh = true ->
  is_superset_m cfg_now sh s = Ok true -> conflict_free d = true -> mem d sh = true.
Proof. exact text_superset_sound. Qed.
Print Assumptions C02_text_superset_sound.

Theorem C02_text_superset_checked_sound : forall sh s d, text_of s d -> wf sh = true ->
  is_superset_checked_m cfg_now sh s = Ok true -> conflict_free d = true -> mem d sh = true.
Proof. exact text_superset_checked_sound. Qed.
Print Assumptions C02_text_superset_checked_sound.

Example C02_nonvacuous :
  let a := STuple [SNumber false; SObject [([97%N], SString false)] false] false in
  let b := STuple [SNumber true; SObject [([97%N], SOneOf [SNull; SString false] false); ([98%N], SBool true)] true] true in
  wf b = true /\ is_subset a b = true /\ mem (JArr [JNum; JObj [([97%N], JStr)]]) a = true.
Proof. vm_compute. repeat split. Qed.
