(* C07 — inference depends only on the type structure of the document.
   Property theorems only (proofs live in Proofs/InferInvariance.v).
   Tree level: the document type [json] (Model/Sem.v) carries kinds only — which number,
   which string and escapes, true versus false, and all whitespace are not in the tree at
   all, so independence from them is the statement that every rendering of a tree parses
   back to that tree's inference:

     parse_render (target, text level, shares stage 3 of C04; TESTED on every run by the
       "model renderer" correspondence of tools/props/C07.py):
       forall ch d, valid_names d -> from_str_m cfg_fixed (render_text ch d) = lift (infer_text d)

   What is proved here for all documents: invariance under member order and under the
   number of repetitions of same-shaped elements. *)
From Coq Require Import List Bool NArith Permutation.
Import ListNotations.
From JS Require Import Model.Base Model.Shape Model.Sem Model.Infer Proofs.InferInvariance.

(* member order: any permutation of distinctly named members gives the same shape *)
Theorem C07_member_order : forall m m', Permutation m m' -> NoDup (map fst m) ->
  forall s, infer_text (JObj m) = Ok s -> infer_text (JObj m') = Ok s.
Proof. exact infer_perm. Qed.
Print Assumptions C07_member_order.

(* the boolean duplicate test used elsewhere implies the NoDup hypothesis *)
Theorem C07_nodup_keys_NoDup : forall m, nodup_keys (JObj m) = true -> NoDup (map fst m).
Proof. exact nodup_keys_NoDup. Qed.
Print Assumptions C07_nodup_keys_NoDup.

(* repetition: n >= 1 copies of an element are inferred like one copy (errors included) *)
Theorem C07_repeat : forall d n, infer_text (JArr (repeat d (S n))) = infer_text (JArr [d]).
Proof. exact infer_repeat. Qed.
Print Assumptions C07_repeat.

(* general form: a non-empty array whose elements all have shape s is Array<s> *)
Theorem C07_same_shape_elements : forall l s, l <> [] -> Forall (fun e => infer_text e = Ok s) l ->
  infer_text (JArr l) = Ok (SArray s false).
Proof. exact infer_same_shape. Qed.
Print Assumptions C07_same_shape_elements.

Theorem C07_repetition_count : forall l l' s, l <> [] -> l' <> [] ->
  Forall (fun e => infer_text e = Ok s) l -> Forall (fun e => infer_text e = Ok s) l' ->
  infer_text (JArr l) = infer_text (JArr l').
Proof. exact infer_repetition_count. Qed.
Print Assumptions C07_repetition_count.

(* non-vacuity: a three-member object in two orders, nested repetition *)
Example C07_nonvacuous :
  let a := ([97%N], JArr [JNum; JNum; JNum]) in
  let b := ([98%N], JObj [([99%N], JStr)]) in
  let c := ([99%N], JNull) in
  infer_text (JObj [a; b; c]) = infer_text (JObj [c; a; b]) /\
  (exists s, infer_text (JObj [a; b; c]) = Ok s) /\
  infer_text (JArr [JObj [a]; JObj [a]]) = infer_text (JArr [JObj [a]]).
Proof. vm_compute. repeat split. eexists. reflexivity. Qed.
