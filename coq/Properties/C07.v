(* C07 — inference depends only on the type structure of the document.
   Property theorems only (proofs live in Proofs/InferInvariance.v).
   Tree level: the document type [json] (Model/Sem.v) carries kinds only — which number,
   which string and escapes, true versus false, and all whitespace are not in the tree at
   all, so independence from them is the statement that every rendering of a tree parses
   back to that tree's inference:

     parse_render (text level, PROVED below as C07_parse_render; also tested on every run by the
       "model renderer" correspondence of tools/props/C07.py):
       forall ch d, keys_ok d -> jdepth d <= 256 ->
         from_str_m cfg_now (render_text ch d) = lift_infer (infer_text d)
     and, stronger, for ANY two RFC 8259 texts with the same tree (C07_same_tree_same_result).

   Tree level, for all documents: invariance under member order and under the number of
   repetitions of same-shaped elements. *)
From Coq Require Import List Bool NArith Permutation.
Import ListNotations.
From JS Require Import Model.Base Model.Shape Model.Sem Model.Infer Model.Lexer Model.Walk Model.TextApi
  Model.JsonRef Proofs.InferInvariance Proofs.TextComplete Proofs.RenderKeys.

(* member order: any permutation of distinctly named members gives the same shape *)
Theorem C07_member_order : forall m m', Permutation m m' -> NoDup (map fst m) ->
  forall s, infer_text (JObj m) = Ok s -> infer_text (JObj m') = Ok s.
Proof. exact infer_perm. Qed.
Print Assumptions C07_member_order.

(* the boolean duplicate test used elsewhere implies the NoDup hypothesis *)
Theorem C07_nodup_keys_NoDup : forall m, nodup_keys (JObj m) = true -> NoDup (map fst m).
Proof. exact nodup_keys_NoDup. Qed.
Print Assumptions C07_nodup_keys_NoDup.

(* repetition: n >= 1 copies of an element are inferred like one copy (errors included) *)
Theorem C07_repeat : forall d n, infer_text (JArr (repeat d (S n))) = infer_text (JArr [d]).
Proof. exact infer_repeat. Qed.
Print Assumptions C07_repeat.

(* general form: a non-empty array whose elements all have shape s is Array<s> *)
Theorem C07_same_shape_elements : forall l s, l <> [] -> Forall (fun e => infer_text e = Ok s) l ->
  infer_text (JArr l) = Ok (SArray s false).
Proof. exact infer_same_shape. Qed.
Print Assumptions C07_same_shape_elements.

Theorem C07_repetition_count : forall l l' s, l <> [] -> l' <> [] ->
  Forall (fun e => infer_text e = Ok s) l -> Forall (fun e => infer_text e = Ok s) l' ->
  infer_text (JArr l) = infer_text (JArr l').
Proof. exact infer_repetition_count. Qed.
Print Assumptions C07_repetition_count.

(* ---------- text level ----------
   every rendering of a document (any whitespace incl. CR / CRLF / tab, any number lexeme, any
   string body with escapes, true / false) whose member names re-read as themselves ([keys_ok];
   decidable twin [keys_okb]) is converted like the tree *)
Theorem C07_parse_render : forall ch d, keys_ok d -> jdepth d <= 256 ->
  from_str_m cfg_now (render_text ch d) = lift_infer (infer_text d).
Proof. exact parse_render_now. Qed.
Print Assumptions C07_parse_render.

Theorem C07_render_choice_irrelevant : forall ch ch' d, keys_ok d -> jdepth d <= 256 ->
  from_str_m cfg_now (render_text ch d) = from_str_m cfg_now (render_text ch' d).
Proof. exact render_choice_irrelevant_now. Qed.
Print Assumptions C07_render_choice_irrelevant.

Theorem C07_render_grammatical : forall ch d, keys_ok d -> json_text (render_text ch d) d.
Proof. exact render_grammatical. Qed.
Print Assumptions C07_render_grammatical.

Theorem C07_keys_okb_sound : forall d, keys_okb d = true -> keys_ok d.
Proof. exact keys_okb_ok. Qed.
Print Assumptions C07_keys_okb_sound.

(* printable ASCII names without quote / backslash satisfy the hypothesis *)
Theorem C07_ascii_keys_ok : forall d, ascii_keys d = true -> keys_ok d.
Proof. exact keys_ok_ascii. Qed.
Print Assumptions C07_ascii_keys_ok.

(* not only the renderer's family: ANY two RFC 8259 texts with the same tree are converted alike *)
Theorem C07_same_tree_same_result : forall s s' d, json_text s d -> json_text s' d -> jdepth d <= 256 ->
  from_str_m cfg_now s = from_str_m cfg_now s'.
Proof. exact same_tree_same_result_now. Qed.
Print Assumptions C07_same_tree_same_result.

(* names spelled with escapes are covered by the theorem above: json_text relates a text to the tree with DECODED
   member names (raw_key), so two spellings of one name are two texts of one tree.  A concrete instance, by
   computation through the reference recogniser (ref_json s = Some d <-> json_text s d): the name "a" followed by
   U+1F600, once with a \u0061 escape and a surrogate-pair escape, once raw *)
Example C07_escaped_names_same_tree :
  let s1 := [123%N; 34%N; 92%N; 117%N; 48%N; 48%N; 54%N; 49%N; 92%N; 117%N; 100%N; 56%N; 51%N; 100%N; 92%N; 117%N; 100%N; 101%N; 48%N; 48%N; 34%N; 58%N; 49%N; 125%N] in
  let s2 := [123%N; 34%N; 97%N; 128512%N; 34%N; 58%N; 49%N; 125%N] in
  ref_json s1 = ref_json s2 /\ ref_json s1 <> None /\ from_str_m cfg_now s1 = from_str_m cfg_now s2.
Proof. vm_compute. repeat split; discriminate. Qed.

(* a tree-level theorem lifted to texts: member order *)
Theorem C07_text_member_order : forall s s' m m' sh, json_text s (JObj m) -> json_text s' (JObj m') ->
  Permutation m m' -> NoDup (map fst m) -> jdepth (JObj m) <= 256 -> jdepth (JObj m') <= 256 ->
  from_str_m cfg_now s = Ok sh -> from_str_m cfg_now s' = Ok sh.
Proof. exact text_member_order_now. Qed.
Print Assumptions C07_text_member_order.

Example C07_text_nonvacuous :
  let d := JObj [([97%N], JArr [JNum; JStr; JObj []]); ([98; 99]%N, JBool); ([195; 169]%N, JNull)] in
  keys_okb d = true /\
  from_str_m cfg_now (render_text [1; 2; 3; 4; 5; 6; 7; 8; 9; 10; 11; 12; 13; 14; 15; 16; 17; 18] d)
  = from_str_m cfg_now (render_text [] d) /\
  exists sh, from_str_m cfg_now (render_text [5; 5; 4; 4; 3; 3] d) = Ok sh.
Proof. vm_compute. repeat split. eexists. reflexivity. Qed.

(* non-vacuity: a three-member object in two orders, nested repetition *)
Example C07_nonvacuous :
  let a := ([97%N], JArr [JNum; JNum; JNum]) in
  let b := ([98%N], JObj [([99%N], JStr)]) in
  let c := ([99%N], JNull) in
  infer_text (JObj [a; b; c]) = infer_text (JObj [c; a; b]) /\
  (exists s, infer_text (JObj [a; b; c]) = Ok s) /\
  infer_text (JArr [JObj [a]; JObj [a]]) = infer_text (JArr [JObj [a]]).
Proof. vm_compute. repeat split. eexists. reflexivity. Qed.
