(* C13 — generated code is a well-formed, self-contained Rust module.  Property theorems
   only (proofs in Proofs/GenWf.v).

   Full statement, kept visible:
     forall s, wf s = true -> wf_module (first_pass s) = true
   where wf_module = header includable /\ every defined name a legal identifier, defined
   once, not a standard type /\ member names legal and distinct /\ every type expression
   built from standard types at their arity and defined names /\ tuples inside derived items
   at most 12 wide.  It is FALSE of the code as it is, in these classes (witnesses below):
     header      EVERY file: `//!` cannot be include!d in a module (E0753)         (F12)
     opt array   nested optional arrays are spelled Optional<Vec<..>> (E0412)      (F13)
     repeated    a sub-object / sub-enum shape occurring twice is defined twice    (F15)
     collision   different sub-shapes with one generated name (E0428)              (KF4)
     keys        member names whose snake_case form is a keyword, starts with a digit,
                 is empty, or coincides with another member's                      (KF3)
     variants    two variants of one OneOf with the same generated name            (KF3/KF4)
     wide tuple  a tuple of more than 12 elements inside a struct/enum: no Debug   (KF3)
   The carve-out [good_names] is a decidable predicate on the SHAPE (no reference to the
   generated items): emitted definition names pairwise distinct, and the four local
   conditions above at every node.  What the partial theorem then establishes is the
   non-trivial closure property: every type name the items refer to is defined among them.
   "wf_module => rustc accepts" is validated, not proved (tools/props/C13.py, thorough tier).
   After fixes/F12.diff: gen_header in Model/Gen.v (SWITCH(F12)) starts with `//`;
   C13_header_refuted fails and C13_gen_wf_module_partial yields wf_module = true.
   After fixes/F13.diff: opt_array_head := lit "Option"; opt_array_ok computes to true, the
   proofs are unchanged, C13_opt_array_refuted fails.
   After fixes/F15.diff: create_subtype skips names already emitted (SWITCH(F15)); [def_names]
   is then deduplicated and C13_repeated_refuted fails. *)
From Coq Require Import String.
From Coq Require Import List Bool NArith.
Import ListNotations.
From JS Require Import Model.Base Model.Shape Model.Gen Proofs.GenDecode Proofs.GenWf Proofs.GenFixes.

Theorem C13_gen_wf_partial : forall s, good_names s = true -> wf_items (first_pass s) = true.
Proof. exact gen_wf. Qed.
Print Assumptions C13_gen_wf_partial.

Theorem C13_gen_wf_module_partial : forall s, good_names s = true ->
  wf_module (first_pass s) = header_ok gen_header.
Proof. exact gen_wf_module. Qed.
Print Assumptions C13_gen_wf_module_partial.

(* for the REPAIRED emission (SWITCH(F15) := first_pass_f15, definitions deduplicated by name)
   the duplicate-definition hypothesis disappears: the local conditions [root_ok] suffice *)
Theorem C13_gen_wf_after_F15 : forall s, root_ok s = true -> wf_items (first_pass_f15 s) = true.
Proof. exact gen_wf_f15. Qed.
Print Assumptions C13_gen_wf_after_F15.

(* F12 (fixed, 7d81851): the header is now a plain comment, so the module-level statement is the
   item-level one *)
Theorem C13_header_ok : header_ok gen_header = true.
Proof. reflexivity. Qed.
Print Assumptions C13_header_ok.

Theorem C13_repeated_refuted : exists s, wf s = true /\ wf_items (first_pass s) = false.
Proof. exists c13_repeated. split; reflexivity. Qed.
Print Assumptions C13_repeated_refuted.

Theorem C13_collision_refuted : exists s, wf s = true /\ wf_items (first_pass s) = false.
Proof. exists c14_collision. split; reflexivity. Qed.
Print Assumptions C13_collision_refuted.

Theorem C13_keys_refuted :
  Forall (fun s => wf s = true /\ wf_items (first_pass s) = false)
         [c13_keyword; c13_digit; c13_snake_clash; c13_empty_key].
Proof. repeat constructor. Qed.
Print Assumptions C13_keys_refuted.

Theorem C13_variant_clash_refuted : exists s, wf s = true /\ wf_items (first_pass s) = false.
Proof. exists c13_variant_clash. split; reflexivity. Qed.
Print Assumptions C13_variant_clash_refuted.

Theorem C13_wide_tuple_refuted : exists s, wf s = true /\ wf_items (first_pass s) = false.
Proof. exists c13_wide_tuple. split; reflexivity. Qed.
Print Assumptions C13_wide_tuple_refuted.

(* non-vacuity: the test-suite fixture meets good_names, and its rendering is the text the
   implementation returns (json_shape_build/src/test/mod.rs, first lines) *)
Example C13_nonvacuous :
  good_names gen_fixture = true /\ wf_items (first_pass gen_fixture) = true.
Proof. vm_compute. split; reflexivity. Qed.
