(* C16 — the build-time compiler is deterministic and consistent with its include macro.
   Property theorems only (proofs live in Proofs/GenPaths.v).
   Determinism of the MODEL is definitional (compile_json_m is a Gallina function of its
   inputs: read results, inference function, OUT_DIR, cwd, name); determinism of the real
   code (no hash-order dependence) is a run-time fact checked by tools/props/C16.py.

   Full statement of the naming clause, kept visible:
     forall a b, wf a -> wf b -> (shape_name a = shape_name b <-> a = b)
   The "->" direction is FALSE of the code as it is (C16_name_inj_refuted, KF4); the "<-"
   direction is C16_name_fun.
   Full statement of the path clause:
     forall dir name, plain_dir dir -> usable_file_name name -> out_path dir name = macro_path dir name
   This was FALSE for names containing a dot before fix 6d32756 (F14, C16_pre_F14_dotted_refuted);
   it now holds for every non-absolute name (C16_paths_agree). *)
From Coq Require Import String.
From Coq Require Import List Bool NArith.
Import ListNotations.
From JS Require Import Model.Base Model.Shape Model.Gen Model.GenClass Proofs.GenPaths Proofs.GenFixes Proofs.GenNameClass.

(* the path clause: every collection name that is not an absolute path, dots included
   (code after fix 6d32756: target.join(format!("{collection_name}.gen.shape.rs"))) *)
Theorem C16_paths_agree : forall dir name,
  plain_dir dir = true -> (match name with c :: _ => negb (N.eqb c 47) | [] => true end) = true ->
  out_path dir name = macro_path dir name.
Proof. exact paths_agree_f14. Qed.
Print Assumptions C16_paths_agree.

(* history of finding F14 (fixed): the path built with PathBuf::with_extension agreed with the
   macro only for dot-free names and was wrong for dotted ones *)
Theorem C16_pre_F14_dotted_refuted :
  exists dir name, plain_dir dir = true /\ no_byte 47 name = true /\ name <> [] /\
                   out_path_pre_f14 dir name <> macro_path dir name.
Proof. exact paths_dotted_refuted. Qed.
Print Assumptions C16_pre_F14_dotted_refuted.

Theorem C16_name_fun : forall a b, cmp a b = Eq -> shape_name a = shape_name b /\ shape_repr a = shape_repr b.
Proof. exact name_fun. Qed.
Print Assumptions C16_name_fun.

Theorem C16_name_inj_refuted :
  exists a b, wf a = true /\ wf b = true /\ a <> b /\ shape_name a = shape_name b.
Proof. exact name_inj_refuted. Qed.
Print Assumptions C16_name_inj_refuted.

(* the class of known finding KF4, as a theorem: the name is computed from constructors, flags and the TYPES of
   members / variants / elements in order - never from member names - so shapes that agree on those
   (same_types, decidable, Model/GenClass.v) get one name; the Example shows two different well-formed shapes in
   the class *)
Theorem C16_name_collision_class : forall a b, same_types a b = true -> shape_name a = shape_name b.
Proof. exact same_types_name. Qed.
Print Assumptions C16_name_collision_class.

Example C16_name_collision_class_inhabited :
  let a := SObject [([97%N], SNumber false)] false in
  let b := SObject [([98%N], SNumber false)] false in
  wf a = true /\ wf b = true /\ a <> b /\ same_types a b = true.
Proof. exact same_types_differ. Qed.

Theorem C16_file_is_header_plus_text :
  forall (E : Type) (infer : list text -> outcome E shape) cwd od name srcs w txt tr,
  compile_json_m infer cwd od name srcs w = (Ok txt, tr) ->
  exists pre, tr = pre ++ [EWrite (out_path (match od with Some d => d | None => cwd end) name)
                                  (gen_header ++ txt)]
              /\ no_write pre = true.
Proof. exact (@file_is_header_plus_text). Qed.
Print Assumptions C16_file_is_header_plus_text.

Theorem C16_error_writes_nothing :
  forall (E : Type) (infer : list text -> outcome E shape) cwd od name srcs w r tr,
  compile_json_m infer cwd od name srcs w = (r, tr) ->
  (r = Err CRead \/ r = Err CInfer \/ r = Panic) -> no_write tr = true.
Proof. exact (@error_writes_nothing). Qed.
Print Assumptions C16_error_writes_nothing.

Theorem C16_empty_sources_error :
  forall (E : Type) (infer : list text -> outcome E shape) cwd od name w,
  (forall e, infer [] <> Ok e) ->
  exists r tr, compile_json_m infer cwd od name [] w = (r, tr) /\ no_write tr = true /\
               (r = Err CInfer \/ r = Panic).
Proof. exact (@empty_sources_error). Qed.
Print Assumptions C16_empty_sources_error.

(* non-vacuity / guard against a wrong extraction: values observed on the implementation *)
Example C16_nonvacuous :
  plain_dir (txt "/tmp/out dir") = true /\ plain_name (txt "collection") = true /\
  out_path (txt "/tmp/out dir") (txt "collection") = txt "/tmp/out dir/collection.gen.shape.rs" /\
  out_path (txt "/o") (txt "a.b") = txt "/o/a.b.gen.shape.rs" /\
  shape_name (SObject [(txt "key", SNumber false)] false) = txt "Struct1Crc913C1A62" /\
  hex_upper (crc32 (txt "0000")) = txt "C9BC472".
Proof. vm_compute. repeat split. Qed.
