(* C09 — accumulating sources converges. *)
From Coq Require Import List Bool NArith.
Import ListNotations.
From JS Require Import Model.Base Model.Shape Model.Sem Model.Merger Model.Infer Model.Api
  Proofs.MergerConverge Proofs.SourcesSound Proofs.MergerAbsorb Proofs.ReaddAny.
From JS Require Import Model.Lexer Model.Walk Model.TextApi Model.JsonRef Proofs.TextComplete Proofs.TextLift Proofs.TextAbsorb.

(* merging the same source shape a second time changes nothing, whatever has been accumulated:
   for every well-formed a and every OneOf-free s (all inferred shapes are) without an Array<Null> node *)
Theorem C09_add_twice : forall a s, wf a = true ->
  wf s = true /\ oneof_free s = true /\ no_null_array s = true ->
  merger (merger a s) s = merger a s.
Proof. exact add_twice. Qed.
Print Assumptions C09_add_twice.

(* sequences: after d has been added once at the end, any number of further copies changes nothing
   (so the size of the shape does not depend on the number of repetitions) *)
Theorem C09_sources_converge : forall h d sd m, infer_text d = Ok sd -> no_null_array sd = true ->
  from_sources_tree (h ++ [d]) = Ok m ->
  forall k, from_sources_tree ((h ++ [d]) ++ repeat d k) = Ok m.
Proof. exact sources_converge. Qed.
Print Assumptions C09_sources_converge.

(* repetitions never remove documents (half of "does not change which documents are admitted") *)
Theorem C09_repeat_widens : forall ds d s s', from_sources_tree ds = Ok s ->
  from_sources_tree (ds ++ [d]) = Ok s' -> forall x, mem x s = true -> mem x s' = true.
Proof. exact sources_monotone. Qed.
Print Assumptions C09_repeat_widens.

(* THE PROPERTY IN FULL (d anywhere in h, no side condition on d): for every source sequence h that
   infers (from_sources h = Ok m) and every d in h there is ONE shape m1 such that
   from_sources (h ++ [d]*(k+1)) = Ok m1 for every k — the shape stops changing after at most one
   re-addition — and m1 admits exactly the documents m admits. *)
Theorem C09_readd : forall h d m, from_sources_tree h = Ok m -> In d h ->
  exists m1, (forall k, from_sources_tree (h ++ repeat d (S k)) = Ok m1) /\
             (forall x, mem x m1 = mem x m).
Proof. exact sources_readd. Qed.
Print Assumptions C09_readd.

(* the two clauses in the property's own wording:
   meaning(from_sources(h+[d]*k)) == meaning(from_sources(h))  for every k *)
Theorem C09_readd_meaning : forall h d m k m', from_sources_tree h = Ok m -> In d h ->
  from_sources_tree (h ++ repeat d k) = Ok m' -> forall x, mem x m' = mem x m.
Proof. exact sources_readd_meaning. Qed.
Print Assumptions C09_readd_meaning.

(* from_sources(h+[d]*(k+1)) == from_sources(h+[d]*k)  for every k >= 1 *)
Theorem C09_readd_stable : forall h d m k, from_sources_tree h = Ok m -> In d h ->
  from_sources_tree (h ++ repeat d (S (S k))) = from_sources_tree (h ++ repeat d (S k)).
Proof. exact sources_readd_stable. Qed.
Print Assumptions C09_readd_stable.

(* re-adding never fails *)
Theorem C09_readd_ok : forall h d m k, from_sources_tree h = Ok m -> In d h ->
  exists m', from_sources_tree (h ++ repeat d k) = Ok m'.
Proof. exact sources_readd_ok. Qed.
Print Assumptions C09_readd_ok.

(* beyond the property's own quantifier (one document re-added in a row): ANY re-additions of documents that are
   already among the sources -- several different ones, interleaved, in any order, any number of times --
   never fail and never change which documents the shape admits *)
Theorem C09_readd_any : forall h m, from_sources_tree h = Ok m ->
  forall r, (forall d, In d r -> In d h) ->
  exists m', from_sources_tree (h ++ r) = Ok m' /\ (forall x, mem x m' = mem x m).
Proof. exact sources_readd_any. Qed.
Print Assumptions C09_readd_any.

(* ... while the syntactic clause is tied to re-adding in a row: a document added twice already can still change the
   representation once more after another source arrived in between (true, null, null, "s", then null: sets the flag) *)
Theorem C09_readd_any_not_syntactic : exists g d x, let h := g ++ [d; d] ++ [x] in
  from_sources_tree (h ++ [d]) <> from_sources_tree h /\
  from_sources_tree (h ++ [d; d]) = from_sources_tree (h ++ [d]).
Proof. exact readd_any_not_syntactic. Qed.
Print Assumptions C09_readd_any_not_syntactic.

(* when the merged shape of h contains no OneOf, not even the first re-addition changes anything *)
Theorem C09_readd_unchanged_free : forall h d m, from_sources_tree h = Ok m -> oneof_free m = true -> In d h ->
  forall k, from_sources_tree (h ++ repeat d k) = Ok m.
Proof. exact sources_absorb_free. Qed.
Print Assumptions C09_readd_unchanged_free.

(* "at most one" is tight: the first re-addition may change the representation once *)
Theorem C09_readd_changes_once : exists h d, In d h /\
  from_sources_tree (h ++ [d]) <> from_sources_tree h /\
  from_sources_tree (h ++ [d; d]) = from_sources_tree (h ++ [d]).
Proof. exact readd_changes_once. Qed.
Print Assumptions C09_readd_changes_once.

(* The pairwise core for ARBITRARY accumulated shapes (which the property does not quantify over)
   keeps the hypothesis no_null_array, and it cannot be dropped there: *)
Theorem C09_add_twice_needs_hypothesis : exists a s, wf a = true /\ wf s = true /\ oneof_free s = true /\
  merger (merger a s) s <> merger a s /\
  merger (merger (merger a s) s) s = merger (merger a s) s.
Proof. exact add_twice_needs_hypothesis. Qed.
Print Assumptions C09_add_twice_needs_hypothesis.

(* on TEXTS *)
Theorem C09_text_converge : forall srcs ds s d sd sh, Forall2 text_of srcs ds -> text_of s d ->
  infer_text d = Ok sd -> no_null_array sd = true ->
  from_sources_m cfg_now (srcs ++ [s]) = Ok sh ->
  forall k, from_sources_m cfg_now ((srcs ++ [s]) ++ repeat s k) = Ok sh.
Proof. exact text_sources_converge. Qed.
Print Assumptions C09_text_converge.

(* on TEXTS, in full: a source text already among the source texts, any position *)
Theorem C09_text_readd : forall srcs ds s sh, Forall2 text_of srcs ds -> In s srcs ->
  from_sources_m cfg_now srcs = Ok sh ->
  exists sh1, (forall k, from_sources_m cfg_now (srcs ++ repeat s (S k)) = Ok sh1) /\
              (forall x, mem x sh1 = mem x sh).
Proof. exact text_sources_readd. Qed.
Print Assumptions C09_text_readd.

Example C09_nonvacuous :
  let h := [JArr [JNum]; JArr [JNum; JStr]] in
  let d := JArr [JNum; JStr] in
  from_sources_tree h = Ok (SArray (SOneOf [SNumber false; SString false] false) false) /\
  from_sources_tree (h ++ [d; d; d]) = from_sources_tree h.
Proof. vm_compute. split; reflexivity. Qed.
