(* C09 — accumulating sources converges. *)
From Coq Require Import List Bool NArith.
Import ListNotations.
From JS Require Import Model.Base Model.Shape Model.Sem Model.Merger Model.Infer Model.Api
  Proofs.MergerConverge Proofs.SourcesSound.
From JS Require Import Model.Lexer Model.Walk Model.TextApi Model.JsonRef Proofs.TextComplete Proofs.TextLift.

(* merging the same source shape a second time changes nothing, whatever has been accumulated:
   for every well-formed a and every OneOf-free s (all inferred shapes are) without an Array<Null> node *)
Theorem C09_add_twice : forall a s, wf a = true ->
  wf s = true /\ oneof_free s = true /\ no_null_array s = true ->
  merger (merger a s) s = merger a s.
Proof. exact add_twice. Qed.
Print Assumptions C09_add_twice.

(* sequences: after d has been added once at the end, any number of further copies changes nothing
   (so the size of the shape does not depend on the number of repetitions) *)
Theorem C09_sources_converge : forall h d sd m, infer_text d = Ok sd -> no_null_array sd = true ->
  from_sources_tree (h ++ [d]) = Ok m ->
  forall k, from_sources_tree ((h ++ [d]) ++ repeat d k) = Ok m.
Proof. exact sources_converge. Qed.
Print Assumptions C09_sources_converge.

(* repetitions never remove documents (half of "does not change which documents are admitted") *)
Theorem C09_repeat_widens : forall ds d s s', from_sources_tree ds = Ok s ->
  from_sources_tree (ds ++ [d]) = Ok s' -> forall x, mem x s = true -> mem x s' = true.
Proof. exact sources_monotone. Qed.
Print Assumptions C09_repeat_widens.

(* PARTIAL. Full statement of the property (not proved in general; covered by correspondence + oracle):
     forall h d, In d h -> forall k >= 1,
       equiv (from_sources (h ++ repeat d k)) (from_sources h) /\
       from_sources (h ++ repeat d (k+1)) = from_sources (h ++ repeat d k).
   Proved: the second clause whenever d is the LAST element of h (C09_sources_converge) and, for
   d anywhere, the pairwise core C09_add_twice for arbitrary accumulated shapes under
   no_null_array; the first clause in the direction "nothing is removed".
   The hypothesis no_null_array cannot be dropped for ARBITRARY accumulated shapes: *)
Theorem C09_add_twice_needs_hypothesis : exists a s, wf a = true /\ wf s = true /\ oneof_free s = true /\
  merger (merger a s) s <> merger a s /\
  merger (merger (merger a s) s) s = merger (merger a s) s.
Proof. exact add_twice_needs_hypothesis. Qed.
Print Assumptions C09_add_twice_needs_hypothesis.

(* on TEXTS *)
Theorem C09_text_converge : forall srcs ds s d sd sh, Forall2 text_of srcs ds -> text_of s d ->
  infer_text d = Ok sd -> no_null_array sd = true ->
  from_sources_m cfg_now (srcs ++ [s]) = Ok sh ->
  forall k, from_sources_m cfg_now ((srcs ++ [s]) ++ repeat s k) = Ok sh.
Proof. exact text_sources_converge. Qed.
Print Assumptions C09_text_converge.

Example C09_nonvacuous :
  let h := [JArr [JNum]; JArr [JNum; JStr]] in
  let d := JArr [JNum; JStr] in
  from_sources_tree h = Ok (SArray (SOneOf [SNumber false; SString false] false) false) /\
  from_sources_tree (h ++ [d; d; d]) = from_sources_tree h.
Proof. vm_compute. split; reflexivity. Qed.
