(* C08 — merging follows the documented algebra. *)
From Coq Require Import List Bool NArith.
Import ListNotations.
From JS Require Import Model.Base Model.Shape Model.Sem Model.Merger Model.Infer Model.Api
  Proofs.MergerAlgebra.
From JS Require Import Model.Lexer Model.Walk Model.TextApi Model.JsonRef Proofs.TextComplete Proofs.TextLift.

Theorem C08_idempotent : forall s, wf s = true -> merger s s = s.
Proof. exact merge_idem. Qed.
Print Assumptions C08_idempotent.

Theorem C08_null_left : forall s, merger SNull s = as_optional s.
Proof. exact merge_null_l. Qed.
Print Assumptions C08_null_left.

Theorem C08_null_right : forall s, merger s SNull = as_optional s.
Proof. exact merge_null_r. Qed.
Print Assumptions C08_null_right.

(* both orders admit the same documents (they may differ syntactically in the Tuple/Tuple arm) *)
Theorem C08_order_insensitive : forall a b, wf a = true -> wf b = true ->
  forall d, mem d (merger a b) = mem d (merger b a).
Proof. exact merge_comm. Qed.
Print Assumptions C08_order_insensitive.

Theorem C08_objects : forall c o c' o', wf (SObject c o) = true -> wf (SObject c' o') = true ->
  exists mg, merger (SObject c o) (SObject c' o') = SObject mg (o || o') /\ keys_sorted mg = true /\
    forall k, map_get k mg =
      match map_get k c, map_get k c' with
      | Some v, Some v' => Some (merger v v')
      | Some v, None => Some (as_optional v)
      | None, Some v' => Some (as_optional v')
      | None, None => None
      end.
Proof. exact merge_object_keys. Qed.
Print Assumptions C08_objects.

Theorem C08_arrays : forall t o t' o', merger (SArray t o) (SArray t' o') = SArray (merger t t') (o || o').
Proof. exact merge_array. Qed.
Print Assumptions C08_arrays.

Theorem C08_scalar_kinds : forall a b, Merger.is_scalar a = true -> Merger.is_scalar b = true -> tag a <> tag b ->
  exists vs, merger a b = SOneOf vs false /\ sorted cmp vs = true /\
    forall z, In z vs <-> z = as_non_optional a \/ z = as_non_optional b \/
                          ((is_optional a || is_optional b) = true /\ z = SNull).
Proof. exact merge_scalar_kinds. Qed.
Print Assumptions C08_scalar_kinds.

(* document level *)
Theorem C08_sources_idempotent : forall d s, infer_text d = Ok s -> from_sources_tree [d; d] = Ok s.
Proof. exact sources_idem. Qed.
Print Assumptions C08_sources_idempotent.

Theorem C08_sources_null : forall d s, infer_text d = Ok s ->
  from_sources_tree [d; JNull] = Ok (as_optional s) /\ from_sources_tree [JNull; d] = Ok (as_optional s).
Proof. exact sources_null. Qed.
Print Assumptions C08_sources_null.

Theorem C08_sources_order : forall d e s s', from_sources_tree [d; e] = Ok s -> from_sources_tree [e; d] = Ok s' ->
  forall x, mem x s = mem x s'.
Proof. exact sources_comm. Qed.
Print Assumptions C08_sources_order.

(* on TEXTS: from_sources([d, d]) == from_str(d) *)
Theorem C08_text_idempotent : forall s d sh, text_of s d -> from_str_m cfg_now s = Ok sh ->
  from_sources_m cfg_now [s; s] = Ok sh.
Proof. exact text_sources_idem. Qed.
Print Assumptions C08_text_idempotent.

Example C08_nonvacuous :
  let a := STuple [SNumber false; SString true] false in
  let b := STuple [SNumber true; SNull] true in
  wf a = true /\ wf b = true /\ merger a b = STuple [SNumber true; SString true] true /\
  merger a (SBool false) = SOneOf [SBool false; STuple [SNumber false; SString true] false] false.
Proof. vm_compute. repeat split. Qed.
