(* C14 — generated types mirror the inferred shape.  Property theorems only
   (proofs in Proofs/GenDecode.v).

   Full statement, kept visible:
     forall s, wf s = true -> forall fuel, 2 * depth s + 2 <= fuel ->
       decode fuel (first_pass s) = Some (erase s)
   It is FALSE of the code as it is; the four failing classes are exhibited below
   (C14_*_refuted) and are exactly what the decidable carve-out [decodable] excludes:
     names_inj   two DIFFERENT definable sub-shapes share a generated name            (KF4)
     root_dec    the optional flag of an Object / OneOf root is dropped                (KF3)
                 a nested optional array is spelled Optional<Vec<..>>                  (F13)
                 tuples of arity 0 / 1: Rust reads () as unit and (T) as T; shape
                 inference never produces them (validated by the check on every inferred shape)
   [erase] forgets only what the target language cannot carry: member names are compared
   through to_snake.  After fixes/F13.diff set [opt_array_head := lit "Option"] in Model/Gen.v
   (SWITCH(F13)): [opt_array_decodes] becomes true, the proofs go through unchanged (they
   never evaluate it) and C14_opt_array_refuted fails, as it must. *)
From Coq Require Import String.
From Coq Require Import List Bool NArith.
Import ListNotations.
From JS Require Import Model.Base Model.Shape Model.Gen Proofs.GenDecode Proofs.GenFixes.

Theorem C14_decode_gen_partial : forall s, decodable s = true ->
  forall fuel, 2 * depth s + 2 <= fuel -> decode fuel (first_pass s) = Some (erase s).
Proof. exact decode_gen. Qed.
Print Assumptions C14_decode_gen_partial.

(* the same statement for the REPAIRED (deduplicating) emission, SWITCH(F15) := first_pass_f15 *)
Theorem C14_decode_gen_after_F15 : forall s, decodable s = true ->
  forall fuel, 2 * depth s + 2 <= fuel -> decode fuel (first_pass_f15 s) = Some (erase s).
Proof. exact decode_gen_f15. Qed.
Print Assumptions C14_decode_gen_after_F15.

Theorem C14_root_flag_refuted :
  exists s, wf s = true /\ names_inj s = true /\ decode_auto (first_pass s) <> Some (erase s).
Proof. exists c14_root_flag. repeat split. vm_compute. discriminate. Qed.
Print Assumptions C14_root_flag_refuted.

(* F13 (fixed, 171b495): a nested optional array is Option<Vec<..>> and reads back *)
Theorem C14_opt_array_decodes : opt_array_decodes = true.
Proof. reflexivity. Qed.
Print Assumptions C14_opt_array_decodes.

Theorem C14_collision_refuted :
  exists s, wf s = true /\ root_dec s = true /\ decode_auto (first_pass s) <> Some (erase s).
Proof. exists c14_collision. repeat split. vm_compute. discriminate. Qed.
Print Assumptions C14_collision_refuted.

Theorem C14_one_tuple_refuted :
  exists s, wf s = true /\ names_inj s = true /\ decode_auto (first_pass s) <> Some (erase s).
Proof. exists c14_one_tuple. repeat split. vm_compute. discriminate. Qed.
Print Assumptions C14_one_tuple_refuted.

(* non-vacuity: the fixture of json_shape_build/src/test (nested, optional members, tuple,
   array of objects, a non-snake key) is decodable and decodes to its erasure *)
Example C14_nonvacuous :
  wf gen_fixture = true /\ decodable gen_fixture = true /\
  decode_auto (first_pass gen_fixture) = Some (erase gen_fixture) /\
  erase gen_fixture <> gen_fixture.
Proof. vm_compute. repeat split. discriminate. Qed.
