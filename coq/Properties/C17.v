(* C17 — single-document inference is compositional and exact. *)
From Coq Require Import List Bool NArith.
Import ListNotations.
From JS Require Import Model.Base Model.Shape Model.Sem Model.Infer
  Proofs.InferFacts Proofs.InferLaws.

(* scalars and null *)
Theorem C17_scalars :
  infer_text JNull = Ok SNull /\ infer_text JBool = Ok (SBool false) /\
  infer_text JNum = Ok (SNumber false) /\ infer_text JStr = Ok (SString false).
Proof. repeat split. Qed.
Print Assumptions C17_scalars.

(* objects: exactly the member names, each carrying the shape of its value *)
Theorem C17_object : forall m s, nodup_top m = true -> infer_text (JObj m) = Ok s ->
  exists c, s = SObject c false /\ keys_sorted c = true /\
    forall k, map_get k c = match doc_get k m with
                            | Some v => ok_shape (infer_text v)
                            | None => None
                            end.
Proof. exact infer_object_law. Qed.
Print Assumptions C17_object.

(* arrays: the result is the classification of the element shapes, in order *)
Theorem C17_array : forall l s, infer_text (JArr l) = Ok s ->
  exists es, Forall2 (fun x sx => infer_text x = Ok sx) l es /\ array_text es = Ok s.
Proof. exact infer_array_law. Qed.
Print Assumptions C17_array.

Theorem C17_array_equal : forall e r, Forall (fun x => x = e) r -> array_text (e :: r) = Ok (SArray e false).
Proof. exact array_text_equal. Qed.
Print Assumptions C17_array_equal.

Theorem C17_array_tuple : forall e e2 r, ~ Forall (fun x => x = e) (e2 :: r) ->
  forallb is_object (e :: e2 :: r) = false ->
  array_text (e :: e2 :: r) = Ok (STuple (e :: e2 :: r) false).
Proof. exact array_text_tuple. Qed.
Print Assumptions C17_array_tuple.

Theorem C17_array_objects : forall c o e2 r, ~ Forall (fun x => x = SObject c o) (e2 :: r) ->
  forallb is_object (e2 :: r) = true ->
  array_text (SObject c o :: e2 :: r) = Ok (SArray (SObject (objects_fold c (e2 :: r)) false) false).
Proof. exact array_text_objects. Qed.
Print Assumptions C17_array_objects.

(* the folded Object: union of keys; everywhere-present keys keep their shape; partly present
   keys carry the optional form.  [infer_ok] (wf + OneOf-free) holds of every inferred shape. *)
Theorem C17_inferred_ok : forall d s, infer_text d = Ok s -> infer_ok s.
Proof. exact infer_text_ok. Qed.
Print Assumptions C17_inferred_ok.

Theorem C17_arrobj_keys : forall c o rest, infer_ok (SObject c o) ->
  Forall (fun e => infer_ok e /\ is_object e = true) rest -> forall k,
  map_get k (objects_fold c rest) = None <-> Forall (fun e => obj_get k e = None) (SObject c o :: rest).
Proof. exact arrobj_keys. Qed.
Print Assumptions C17_arrobj_keys.

Theorem C17_arrobj_everywhere : forall c o rest, infer_ok (SObject c o) ->
  Forall (fun e => infer_ok e /\ is_object e = true) rest -> forall k s,
  Forall (fun e => obj_get k e = Some s) (SObject c o :: rest) ->
  map_get k (objects_fold c rest) = Some s.
Proof. exact arrobj_everywhere. Qed.
Print Assumptions C17_arrobj_everywhere.

Theorem C17_arrobj_somewhere : forall c o rest, infer_ok (SObject c o) ->
  Forall (fun e => infer_ok e /\ is_object e = true) rest -> forall k s,
  Forall (fun e => obj_get k e = Some s \/ obj_get k e = None) (SObject c o :: rest) ->
  Exists (fun e => obj_get k e = Some s) (SObject c o :: rest) ->
  Exists (fun e => obj_get k e = None) (SObject c o :: rest) ->
  map_get k (objects_fold c rest) = Some (as_optional s).
Proof. exact arrobj_somewhere. Qed.
Print Assumptions C17_arrobj_somewhere.

Example C17_nonvacuous :
  infer_text (JArr [JObj [([97%N], JNum); ([98%N], JStr)]; JObj [([97%N], JNum)]; JObj [([97%N], JNum); ([99%N], JArr [])]])
  = Ok (SArray (SObject [([97%N], SNumber false); ([98%N], SString true); ([99%N], SArray SNull true)] false) false).
Proof. vm_compute. reflexivity. Qed.
