(* C05 — no input makes the library panic / overflow / hang; error ranges are faithful.
   Property theorems only (proofs live in Proofs/Text*.v, Proofs/InferNoPanic.v).
   Every Rust panic site of lexer, parser, CST walk and entry points is an explicit value
   of the model ([Panic], status LPanic / PPanic), so "never panics" is the conjunction of
   the side conditions of all sites.  Running out of the model's own fuel is a
   distinguished value as well ([EFuel]) and is excluded by theorem, not by hypothesis.
   RECURSION DEPTH is part of the model as well (Model/Depth.v: twins of the parser, the CST
   walk and the value path that return, next to the result, the maximal number of
   simultaneously active frames of the recursive Rust functions): it is bounded by an explicit
   constant for EVERY input, whatever its length (Proofs/DepthBound.v) — `depth_bound`.
   Runtime facts (bytes of stack per frame, wall time, allocator) are outside the model:
   validated by tools/props/C05.py (100000 brackets, multi-MB strings, hang guard). *)
From Coq Require Import List Bool NArith.
Import ListNotations.
From JS Require Import Model.Base Model.Shape Model.Sem Model.Infer Model.Lexer Model.Parser
  Model.Walk Model.TextApi Model.ValueCost Model.JsonRef Model.Depth
  Proofs.TextFacts Proofs.TextLexer Proofs.TextParser Proofs.TextWalk Proofs.TextApiFacts
  Proofs.InferNoPanic Proofs.CstTree Proofs.DepthBound Proofs.ShapeDepth.

(* ---- entry points, the code as it is ---- *)
Theorem C05_from_str_no_panic : forall src, from_str_m cfg_now src <> Panic.
Proof. exact from_str_no_panic. Qed.
Print Assumptions C05_from_str_no_panic.

Theorem C05_from_sources_no_panic : forall srcs, from_sources_m cfg_now srcs <> Panic.
Proof. exact from_sources_no_panic. Qed.
Print Assumptions C05_from_sources_no_panic.

Theorem C05_is_superset_no_panic : forall s src, exists b, is_superset_m cfg_now s src = Ok b.
Proof. exact is_superset_no_panic. Qed.
Print Assumptions C05_is_superset_no_panic.

Theorem C05_is_superset_checked_no_panic : forall s src, is_superset_checked_m cfg_now s src <> Panic.
Proof. exact is_superset_checked_no_panic. Qed.
Print Assumptions C05_is_superset_checked_no_panic.

(* the model's fuel never runs out (lexer fuel = #chars, parser fuel = 4*#tokens+8, walk fuel = #nodes) *)
Theorem C05_fuel_suffices : forall src, from_str_m cfg_now src <> Err EFuel.
Proof. exact from_str_no_fuel. Qed.
Print Assumptions C05_fuel_suffices.

(* ---- error ranges are faithful ---- *)
(* inside the input, start <= end, both ends on character boundaries (the input splits as
   pre ++ fragment ++ post with the range = byte lengths), fragment = input at the range *)
Theorem C05_span_faithful : forall src sp fr, from_str_m cfg_now src = Err (EInvalidJson sp fr) ->
  (fst sp <= snd sp)%N /\ (snd sp <= byte_len src)%N /\
  exists pre post, src = pre ++ fr ++ post /\ byte_len pre = fst sp /\ (byte_len pre + byte_len fr)%N = snd sp.
Proof. exact from_str_span_in_range. Qed.
Print Assumptions C05_span_faithful.

(* the same for from_sources (the range belongs to one of the sources) and is_superset_checked *)
Theorem C05_sources_span_faithful : forall srcs sp fr, from_sources_m cfg_now srcs = Err (EInvalidJson sp fr) ->
  exists src, In src srcs /\ faithful src sp fr.
Proof. intros srcs sp fr H. pose proof (from_sources_good srcs) as G. rewrite H in G. exact G. Qed.
Print Assumptions C05_sources_span_faithful.

Theorem C05_checked_span_faithful : forall s src sp fr,
  is_superset_checked_m cfg_now s src = Err (EInvalidJson sp fr) -> faithful src sp fr.
Proof. intros s src sp fr H. pose proof (is_superset_checked_good s src) as G. rewrite H in G. exact G. Qed.
Print Assumptions C05_checked_span_faithful.

(* ---- the same three facts for EVERY configuration of the two planned fixes (F2 reports the
   first diagnostic's range: proved faithful once check_string uses byte offsets) ---- *)
Theorem C05_any_configuration : forall cf src,
  from_str_m cf src <> Panic /\ from_str_m cf src <> Err EFuel /\
  forall sp fr, from_str_m cf src = Err (EInvalidJson sp fr) -> faithful src sp fr.
Proof.
  intros cf src. pose proof (from_str_good_any cf src) as G.
  repeat split; try (intros E; rewrite E in G; exact G). intros sp fr E. rewrite E in G. exact G.
Qed.
Print Assumptions C05_any_configuration.

(* ---- the stages ---- *)
(* lexer: terminates normally (check_string's unreachable!() is unreachable); every token
   span is faithful, spans are consecutive and non-empty, String tokens are quote..quote *)
Theorem C05_lexer : forall cf src,
  l_status (lex cf src) = LDone /\ Forall (tok_ok src) (l_toks (lex cf src)) /\ chain 0 (l_toks (lex cf src)).
Proof. exact lex_ok. Qed.
Print Assumptions C05_lexer.

(* parser: no vector index out of range, fuel suffices, the flat CST is well-formed *)
Theorem C05_parser : forall mx toks ld,
  pr_status (parse_tokens toks mx ld) = POk /\ cst_wf toks (pr_cst (parse_tokens toks mx ld)).
Proof. exact parse_tokens_ok. Qed.
Print Assumptions C05_parser.

(* walk: on a well-formed CST over faithful token spans no panic site fires *)
Theorem C05_walk : forall src toks c, wenv src toks c -> good src (parse_cst c src).
Proof. exact parse_cst_good. Qed.
Print Assumptions C05_walk.

(* ---- value-based entry point ---- *)
Theorem C05_value_no_panic : forall d, exists s, infer_value d = Ok s.
Proof. exact infer_value_total. Qed.
Print Assumptions C05_value_no_panic.

Theorem C05_tree_no_panic : forall d, infer_text d <> Panic.
Proof. exact infer_text_no_panic. Qed.
Print Assumptions C05_tree_no_panic.

(* the value path enters every value exactly once (post-F9): cost = number of values *)
Theorem C05_value_cost_linear : forall d, vcalls d = jnodes d.
Proof. exact vcalls_linear. Qed.
Print Assumptions C05_value_cost_linear.

(* ---- recursion depth (`depth_bound`): no stack overflow ---- *)
(* the lexer stops tokenising at bracket nesting 257: every prefix of the token list it hands
   to the parser has at most 256 more opening than closing brackets (signed count, as in the
   Rust code: closing brackets seen first do let more opening ones through) *)
Theorem C05_lexer_nesting_bound : forall cf s p q, l_toks (lex cf s) = p ++ q -> opens p <= closes p + 256.
Proof. exact lex_nesting_bound. Qed.
Print Assumptions C05_lexer_nesting_bound.

(* the depth-instrumented parser computes the parser's result, and the parser's fuel suffices for it *)
Theorem C05_parser_twin : forall n s, option_map fst (rule_file_d n s) = rule_file n s.
Proof. exact rule_file_d_fst. Qed.
Print Assumptions C05_parser_twin.

Theorem C05_parse_depth_defined : forall toks mx, exists s d,
  rule_file_d (parse_fuel toks) (init_pst toks mx) = Some (s, d) /\
  rule_file (parse_fuel toks) (init_pst toks mx) = Some s /\ parse_depth toks mx = d.
Proof. exact parse_depth_run. Qed.
Print Assumptions C05_parse_depth_defined.

(* frames of rule_file/value/object/member/array/literal/boolean simultaneously active:
   at most 3 per nesting level + 4, on ANY token list (error recovery included) *)
Theorem C05_parse_depth_nested : forall toks mx k, nested k toks -> parse_depth toks mx <= 3 * k + 4.
Proof. exact parse_depth_nested. Qed.
Print Assumptions C05_parse_depth_nested.

Theorem C05_parse_depth_bound : forall cf s mx, parse_depth (l_toks (lex cf s)) mx <= 772.
Proof. exact parse_depth_bound. Qed.
Print Assumptions C05_parse_depth_bound.

(* the CST of EVERY text is the pre-order of one tree rooted at `file` (recovery paths
   included), of walk height at most 514 below the root *)
Theorem C05_cst_is_tree : forall cf s, exists fs post,
  c_nodes (pr_cst (snd (parse_text cf s))) = cflat 0 (CR RFile fs) /\
  l_toks (lex cf s) = cstoks fs ++ post /\ whs fs <= 514.
Proof. exact text_cst_is_tree. Qed.
Print Assumptions C05_cst_is_tree.

(* the depth-instrumented walk computes the walk's result *)
Theorem C05_walk_twin : forall c src, fst (parse_cst_d c src) = parse_cst c src.
Proof. exact parse_cst_d_fst. Qed.
Print Assumptions C05_walk_twin.

(* frames of parse_cst/parse_rule/parse_member/parse_token simultaneously active *)
Theorem C05_walk_depth_bound : forall cf s, walk_depth (pr_cst (snd (parse_text cf s))) s <= 515.
Proof. exact walk_depth_bound. Qed.
Print Assumptions C05_walk_depth_bound.

(* the whole text entry point (lexer: a loop; then parser; then walk), every configuration *)
Theorem C05_from_str_depth_bound : forall cf s, from_str_depth cf s <= 772.
Proof. exact from_str_depth_bound. Qed.
Print Assumptions C05_from_str_depth_bound.

(* value path: the depth-instrumented From<&Value> computes the same shape, and its depth is
   the nesting depth of the value (which serde_json caps at 128 before the library sees it) *)
Theorem C05_value_twin : forall d, fst (infer_value_d d) = infer_value d.
Proof. exact infer_value_d_fst. Qed.
Print Assumptions C05_value_twin.

Theorem C05_value_depth : forall d, jdepth d <= value_depth d <= S (jdepth d).
Proof. exact value_depth_jdepth. Qed.
Print Assumptions C05_value_depth.

(* the constants are attained (256 nested one-member objects around `true`), the 257th
   opening bracket is not handed to the parser, and closing brackets seen first let more
   opening ones through without any recursion (the parser never consumes an unmatched one) *)
Example C05_depth_tight :
  (let s := (concat (repeat [123; 34; 97; 34; 58] 256) ++ [116; 114; 117; 101] ++ repeat 125 256)%N in
   parse_depth (l_toks (lex cfg_now s)) (byte_len s) = 772 /\
   walk_depth (pr_cst (snd (parse_text cfg_now s))) s = 515 /\
   from_str_m cfg_now s <> Err EFuel) /\
  length (l_toks (lex cfg_now (repeat 91%N 300))) = 256 /\
  (let s := (repeat 93 5 ++ repeat 91 300)%N in
   length (l_toks (lex cfg_now s)) = 266 /\ from_str_depth cfg_now s = 2).
Proof. vm_compute. repeat split. discriminate. Qed.

(* non-vacuity: a multi-byte text whose error range is checked by computation, and the
   empty array / nested empty containers that used to panic (F1) *)
Example C05_nonvacuous :
  from_str_m cfg_now [91; 233; 44; 128512; 93]%N = Err (EInvalidJson (1, 3)%N [233%N]) /\
  from_str_m cfg_now [91; 93]%N = Ok (SArray SNull true) /\
  from_str_m cfg_now [123; 34; 97; 34; 58; 91; 93; 125]%N = Ok (SObject [([97%N], SArray SNull true)] false).
Proof. vm_compute. repeat split. Qed.

(* ---- depth of the shapes themselves: merger and is_subset are structural recursions on their first
   argument in the model ({struct a}), so their call nesting is bounded by sdepth of that argument; for
   every shape the text path infers, sdepth is at most the nesting depth of the document (hence <= 256) ---- *)
Theorem C05_shape_depth_bound : forall d s, infer_text d = Ok s -> sdepth s <= jdepth d.
Proof. exact infer_text_depth. Qed.
Print Assumptions C05_shape_depth_bound.

Theorem C05_shape_depth_bound_value : forall d s, nodup_keys d = true -> infer_value d = Ok s -> sdepth s <= jdepth d.
Proof. exact infer_value_depth_nodup. Qed.
Print Assumptions C05_shape_depth_bound_value.

Example C05_shape_depth_tight :
  let d := JArr [JObj [([97%N], JArr [JNum; JStr])]; JObj [([98%N], JNull)]] in
  exists s, infer_text d = Ok s /\ sdepth s = jdepth d.
Proof. exact infer_text_depth_tight. Qed.
