(* C05 — no input makes the library panic / overflow / hang; error ranges are faithful.
   Property theorems only (proofs live in Proofs/Text*.v, Proofs/InferNoPanic.v).
   Every Rust panic site of lexer, parser, CST walk and entry points is an explicit value
   of the model ([Panic], status LPanic / PPanic), so "never panics" is the conjunction of
   the side conditions of all sites.  Running out of the model's own fuel is a
   distinguished value as well ([EFuel]) and is excluded by theorem, not by hypothesis.
   Runtime facts (stack size, wall time, allocator) are outside the model: validated by
   tools/props/C05.py (100000 brackets, multi-MB strings, hang guard). *)
From Coq Require Import List Bool NArith.
Import ListNotations.
From JS Require Import Model.Base Model.Shape Model.Sem Model.Infer Model.Lexer Model.Parser
  Model.Walk Model.TextApi Model.ValueCost
  Proofs.TextFacts Proofs.TextLexer Proofs.TextParser Proofs.TextWalk Proofs.TextApiFacts
  Proofs.InferNoPanic.

(* ---- entry points, the code as it is ---- *)
Theorem C05_from_str_no_panic : forall src, from_str_m cfg_now src <> Panic.
Proof. exact from_str_no_panic. Qed.
Print Assumptions C05_from_str_no_panic.

Theorem C05_from_sources_no_panic : forall srcs, from_sources_m cfg_now srcs <> Panic.
Proof. exact from_sources_no_panic. Qed.
Print Assumptions C05_from_sources_no_panic.

Theorem C05_is_superset_no_panic : forall s src, exists b, is_superset_m cfg_now s src = Ok b.
Proof. exact is_superset_no_panic. Qed.
Print Assumptions C05_is_superset_no_panic.

Theorem C05_is_superset_checked_no_panic : forall s src, is_superset_checked_m cfg_now s src <> Panic.
Proof. exact is_superset_checked_no_panic. Qed.
Print Assumptions C05_is_superset_checked_no_panic.

(* the model's fuel never runs out (lexer fuel = #chars, parser fuel = 4*#tokens+8, walk fuel = #nodes) *)
Theorem C05_fuel_suffices : forall src, from_str_m cfg_now src <> Err EFuel.
Proof. exact from_str_no_fuel. Qed.
Print Assumptions C05_fuel_suffices.

(* ---- error ranges are faithful ---- *)
(* inside the input, start <= end, both ends on character boundaries (the input splits as
   pre ++ fragment ++ post with the range = byte lengths), fragment = input at the range *)
Theorem C05_span_faithful : forall src sp fr, from_str_m cfg_now src = Err (EInvalidJson sp fr) ->
  (fst sp <= snd sp)%N /\ (snd sp <= byte_len src)%N /\
  exists pre post, src = pre ++ fr ++ post /\ byte_len pre = fst sp /\ (byte_len pre + byte_len fr)%N = snd sp.
Proof. exact from_str_span_in_range. Qed.
Print Assumptions C05_span_faithful.

(* the same for from_sources (the range belongs to one of the sources) and is_superset_checked *)
Theorem C05_sources_span_faithful : forall srcs sp fr, from_sources_m cfg_now srcs = Err (EInvalidJson sp fr) ->
  exists src, In src srcs /\ faithful src sp fr.
Proof. intros srcs sp fr H. pose proof (from_sources_good srcs) as G. rewrite H in G. exact G. Qed.
Print Assumptions C05_sources_span_faithful.

Theorem C05_checked_span_faithful : forall s src sp fr,
  is_superset_checked_m cfg_now s src = Err (EInvalidJson sp fr) -> faithful src sp fr.
Proof. intros s src sp fr H. pose proof (is_superset_checked_good s src) as G. rewrite H in G. exact G. Qed.
Print Assumptions C05_checked_span_faithful.

(* ---- the same three facts for EVERY configuration of the two planned fixes (F2 reports the
   first diagnostic's range: proved faithful once check_string uses byte offsets) ---- *)
Theorem C05_any_configuration : forall cf src,
  from_str_m cf src <> Panic /\ from_str_m cf src <> Err EFuel /\
  forall sp fr, from_str_m cf src = Err (EInvalidJson sp fr) -> faithful src sp fr.
Proof.
  intros cf src. pose proof (from_str_good_any cf src) as G.
  repeat split; try (intros E; rewrite E in G; exact G). intros sp fr E. rewrite E in G. exact G.
Qed.
Print Assumptions C05_any_configuration.

(* ---- the stages ---- *)
(* lexer: terminates normally (check_string's unreachable!() is unreachable); every token
   span is faithful, spans are consecutive and non-empty, String tokens are quote..quote *)
Theorem C05_lexer : forall cf src,
  l_status (lex cf src) = LDone /\ Forall (tok_ok src) (l_toks (lex cf src)) /\ chain 0 (l_toks (lex cf src)).
Proof. exact lex_ok. Qed.
Print Assumptions C05_lexer.

(* parser: no vector index out of range, fuel suffices, the flat CST is well-formed *)
Theorem C05_parser : forall mx toks ld,
  pr_status (parse_tokens toks mx ld) = POk /\ cst_wf toks (pr_cst (parse_tokens toks mx ld)).
Proof. exact parse_tokens_ok. Qed.
Print Assumptions C05_parser.

(* walk: on a well-formed CST over faithful token spans no panic site fires *)
Theorem C05_walk : forall src toks c, wenv src toks c -> good src (parse_cst c src).
Proof. exact parse_cst_good. Qed.
Print Assumptions C05_walk.

(* ---- value-based entry point ---- *)
Theorem C05_value_no_panic : forall d, exists s, infer_value d = Ok s.
Proof. exact infer_value_total. Qed.
Print Assumptions C05_value_no_panic.

Theorem C05_tree_no_panic : forall d, infer_text d <> Panic.
Proof. exact infer_text_no_panic. Qed.
Print Assumptions C05_tree_no_panic.

(* the value path enters every value exactly once (post-F9): cost = number of values *)
Theorem C05_value_cost_linear : forall d, vcalls d = jnodes d.
Proof. exact vcalls_linear. Qed.
Print Assumptions C05_value_cost_linear.

(* non-vacuity: a multi-byte text whose error range is checked by computation, and the
   empty array / nested empty containers that used to panic (F1) *)
Example C05_nonvacuous :
  from_str_m cfg_now [91; 233; 44; 128512; 93]%N = Err (EInvalidJson (1, 3)%N [233%N]) /\
  from_str_m cfg_now [91; 93]%N = Ok (SArray SNull true) /\
  from_str_m cfg_now [123; 34; 97; 34; 58; 91; 93; 125]%N = Ok (SObject [([97%N], SArray SNull true)] false).
Proof. vm_compute. repeat split. Qed.
