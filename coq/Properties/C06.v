(* C06 — text-based and value-based inference agree. *)
From Coq Require Import List Bool NArith.
Import ListNotations.
From JS Require Import Model.Base Model.Shape Model.Sem Model.Infer Model.Api Proofs.InferLaws.
From JS Require Import Model.Lexer Model.Walk Model.TextApi Model.JsonRef Proofs.WalkComplete Proofs.TextComplete Proofs.TextLift.

Theorem C06_paths_agree : forall d, nodup_keys d = true -> infer_text d = infer_value d.
Proof. exact paths_agree. Qed.
Print Assumptions C06_paths_agree.

Theorem C06_visitor : forall d, nodup_keys d = true ->
  fst (visitor_tree d) = d /\ snd (visitor_tree d) = infer_text d.
Proof. intros d H. split; [reflexivity|symmetry; exact (paths_agree d H)]. Qed.
Print Assumptions C06_visitor.

(* outside the quantifier (repeated member names) the paths may legitimately differ:
   the text path rejects a conflicting repetition, the value path keeps the last value *)
Theorem C06_duplicates_differ : exists d, nodup_keys d = false /\ infer_text d <> infer_value d.
Proof. exists (JObj [([97%N], JNum); ([97%N], JStr)]). split; [reflexivity|]. vm_compute. discriminate. Qed.
Print Assumptions C06_duplicates_differ.

(* on TEXTS: the shape from_str gives a duplicate-free RFC 8259 text is the value path's shape of its tree *)
Theorem C06_text_paths_agree : forall s d, json_text s d -> jdepth d <= 256 -> nodup_keys d = true ->
  from_str_m cfg_now s = lift_infer (infer_value d).
Proof. exact text_paths_agree_now. Qed.
Print Assumptions C06_text_paths_agree.

Example C06_nonvacuous :
  let d := JArr [JObj [([97%N], JNum); ([98%N], JNum); ([99%N], JNum)]; JObj [([98%N], JNum)]] in
  nodup_keys d = true /\
  infer_text d = Ok (SArray (SObject [([97%N], SNumber true); ([98%N], SNumber false); ([99%N], SNumber true)] false) false).
Proof. vm_compute. split; reflexivity. Qed.
