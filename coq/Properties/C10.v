(* C10 — Subset is reflexive and respects optional widening; similar laws.
   This file holds only the property theorems; each is closed by [exact] of a lemma
   proved in Proofs/, followed by Print Assumptions. *)
From Coq Require Import List Bool NArith.
Import ListNotations.
From JS Require Import Model.Base Model.Shape Model.Subset Proofs.SubsetFacts.

(* [wf] is the invariant Rust's BTreeMap/BTreeSet give every JsonShape value. *)

Theorem C10_subset_refl : forall s, wf s = true -> is_subset s s = true.
Proof. exact subset_refl. Qed.
Print Assumptions C10_subset_refl.

Theorem C10_subset_as_optional : forall s, wf s = true -> is_subset s (as_optional s) = true.
Proof. exact subset_as_optional. Qed.
Print Assumptions C10_subset_as_optional.

Theorem C10_null_subset_optional : forall s, is_optional s = true -> is_subset SNull s = true.
Proof. exact null_subset_optional. Qed.
Print Assumptions C10_null_subset_optional.

Theorem C10_similar_spec : forall a b c, similar a b = Some c ->
  as_non_optional c = as_non_optional a /\ as_non_optional c = as_non_optional b /\
  is_optional c = (is_optional a || is_optional b).
Proof. exact similar_spec. Qed.
Print Assumptions C10_similar_spec.

Theorem C10_similar_sym : forall a b, similar a b = similar b a.
Proof. exact similar_sym. Qed.
Print Assumptions C10_similar_sym.

Theorem C10_similar_subset : forall a b c, wf a = true -> wf b = true -> similar a b = Some c ->
  is_subset a c = true /\ is_subset b c = true.
Proof. exact similar_subset. Qed.
Print Assumptions C10_similar_subset.

(* non-vacuity: the hypotheses are met by a nested, non-trivial shape *)
Definition ex_shape : shape :=
  SObject [([97%N], SOneOf [SNull; SNumber false; SArray (SString true) false] false);
           ([98%N], STuple [SBool true; SObject [] true] true)] false.
Example C10_nonvacuous :
  wf ex_shape = true /\ similar ex_shape (as_optional ex_shape) = Some (as_optional ex_shape).
Proof. vm_compute. split; reflexivity. Qed.
