(* C11 — external representations of a shape are faithful. *)
From Coq Require Import List Bool NArith String.
Import ListNotations.
From JS Require Import Model.Base Model.Shape Model.Repr Proofs.ReprFacts Proofs.DisplayInj.

(* serde round trip, for every well-formed shape *)
Theorem C11_serde_roundtrip : forall s, wf s = true -> de (ser s) = Some s.
Proof. exact de_ser. Qed.
Print Assumptions C11_serde_roundtrip.

Theorem C11_serde_injective : forall s s', wf s = true -> wf s' = true -> ser s = ser s' -> s = s'.
Proof. exact ser_injective. Qed.
Print Assumptions C11_serde_injective.

(* Display determines the shape on identifier-like member names ([A-Za-z0-9_-]+); in fact it is
   a prefix-free code *)
Theorem C11_display_injective : forall s s', ident_keys s = true -> ident_keys s' = true ->
  display s = display s' -> s = s'.
Proof. exact display_injective. Qed.
Print Assumptions C11_display_injective.

Theorem C11_display_prefix_free : forall s s' r r', ident_keys s = true -> ident_keys s' = true ->
  display s ++ r = display s' ++ r' -> s = s' /\ r = r'.
Proof. exact display_prefix_free. Qed.
Print Assumptions C11_display_prefix_free.

(* outside the identifier domain Display does collide (quoted names are not escaped): the
   quantifier of the property excludes these *)
Theorem C11_display_collision_outside_domain : exists s s', s <> s' /\ display s = display s'.
Proof.
  exists (SObject [(Repr.bytes "x y"": Number, ""z w"%string, SNumber false)] false),
         (SObject [(Repr.bytes "x y"%string, SNumber false); (Repr.bytes "z w"%string, SNumber false)] false).
  split; [discriminate|]. vm_compute. reflexivity.
Qed.
Print Assumptions C11_display_collision_outside_domain.

Example C11_nonvacuous :
  let s := SObject [(Repr.bytes "a-b"%string, SOneOf [SNull; STuple [SNumber true; SArray (SString false) true] false] true)] false in
  wf s = true /\ ident_keys s = true /\ de (ser s) = Some s /\
  display s = Repr.bytes "Object{a-b: Option<OneOf[Null | Tuple(Option<Number>, Option<Array<String>>)]>}"%string.
Proof. vm_compute. repeat split. Qed.
