(* C04 — parsing accepts exactly the JSON language (RFC 8259, +- duplicate conflict, +- depth 256).
   Property theorems only (proofs live in Proofs/Text*.v).

   FULL STATEMENT (target; holds of the model with both fixes, [cfg_fixed], and is what the
   check tests on every generated text as "model with F2+F3 = RFC 8259 reference"):

     C04_main : forall s, accepts cfg_fixed s = true <->
                  exists t, json_text s t /\ jdepth t <= 256 /\ dup_consistent t = true

   PROVED (C04_main below, for every text of Unicode scalar values).  The two halves:
   <=  C04_lexer_complete / C04_parser_complete / C04_walk_complete compose into
       C04_grammatical_converted (a grammatical text of depth <= 256 is converted exactly like
       its tree) and C04_grammatical_accepted;
   =>  C04_lexer_sound / C04_parser_sound / C04_tree_text (a silent pipeline run yields an RFC
       derivation of depth <= 256) + C04_dup_consistent_iff.
   The reference recogniser is exact (C04_reference_exact), so "model = reference" is a theorem
   (C04_accepts_is_reference) and the correspondence of the check only has to tie the MODEL to the
   implementation.

   Before the fixes F2 (honour the parser diagnostics) and F3 (bare CR is whitespace) the
   statement was FALSE of the code in both directions; the theorems below keep one witness
   per class as a regression: the code before the fixes ([cfg_pre]) accepted / rejected it
   wrongly, the code as it is ([cfg_now]) agrees with the reference. *)
From Coq Require Import List Bool NArith.
Import ListNotations.
From JS Require Import Model.Base Model.Shape Model.Sem Model.Infer Model.Lexer Model.Parser
  Model.Walk Model.TextApi Model.JsonRef Model.TextClasses Proofs.JsonRefSound Proofs.TextLexSpec
  Proofs.CstTree Proofs.LexComplete Proofs.ParseComplete Proofs.WalkComplete Proofs.RefComplete Proofs.TextComplete
  Proofs.LexSound Proofs.ParseSound Proofs.TextSound.

(* the oracle of the check is sound for the inductive grammar: what the executable
   recogniser accepts is a JSON-text of RFC 8259 with exactly that tree *)
Theorem C04_reference_sound : forall s t, ref_json s = Some t -> json_text s t.
Proof. exact ref_json_sound. Qed.
Print Assumptions C04_reference_sound.

Theorem C04_reference_accepts_sound : forall s, ref_accepts s = true ->
  exists t, json_text s t /\ jdepth t <= 256 /\ dup_consistent t = true.
Proof.
  intros s H. unfold ref_accepts in H. destruct (ref_json s) as [t|] eqn:E; [|discriminate].
  apply andb_true_iff in H. destruct H as [Hd Hc]. exists t. split; [apply ref_json_sound; exact E|].
  split; [apply PeanoNat.Nat.leb_le; exact Hd|exact Hc].
Qed.
Print Assumptions C04_reference_accepts_sound.

(* stage 2 (lexeme level), soundness direction: every token the lexer emits carries a text
   that is a lexeme of RFC 8259 of that kind -- whitespace tokens are ws, literal tokens are
   the three literal names, structural tokens the six structural characters, Number tokens
   are `number`, String tokens are quote..quote *)
Theorem C04_lexemes_sound_partial : forall cf c r t w rest, lex1 cf c r = (LOk t, w, rest) -> lexeme_ok t w.
Proof. exact lex1_sound. Qed.
Print Assumptions C04_lexemes_sound_partial.

(* ... and a String token about which check_string reports nothing is an RFC `string`
   (no raw control character, only the eight simple escapes and \uXXXX) *)
Theorem C04_string_token_sound_partial : forall cf c r w rest pos, Forall scalar (c :: r) ->
  lex1 cf c r = (LOk TString, w, rest) -> check_string cf w pos = Some [] -> exists body, string_lit w body.
Proof. exact string_token_sound. Qed.
Print Assumptions C04_string_token_sound_partial.

(* ---------- completeness: grammatical texts are accepted, and converted like their tree ----------
   The reference recogniser is exact for the inductive grammar (so the grammar is unambiguous) *)
Theorem C04_reference_complete : forall s t, json_text s t -> ref_json s = Some t.
Proof. exact ref_json_complete. Qed.
Print Assumptions C04_reference_complete.

Theorem C04_reference_exact : forall s t, ref_json s = Some t <-> json_text s t.
Proof. exact ref_json_exact. Qed.
Print Assumptions C04_reference_exact.

Theorem C04_grammar_unambiguous : forall s t t', json_text s t -> json_text s t' -> t = t'.
Proof. exact json_text_unique. Qed.
Print Assumptions C04_grammar_unambiguous.

(* stage 2, completeness (longest match = RFC tokenisation): on a grammatical text nested at most
   256 deep the lexer is silent, does not hit the nesting cap, and emits the tokens of a CST tree
   of the document: one Number / String / literal / structural token per lexeme, whitespace between *)
Theorem C04_lexer_complete : forall s d, json_text s d -> jdepth d <= 256 ->
  exists t, jfile s d t /\ lex cfg_now s = {| l_toks := ctoks t; l_diags := []; l_status := LDone |}.
Proof. exact lex_complete_now. Qed.
Print Assumptions C04_lexer_complete.

(* stage 1, completeness: on the tokens of a CST tree of a document the recovering parser is
   silent and builds exactly the pre-order node vector of that tree *)
Theorem C04_parser_complete : forall src d t mx ld, jfile src d t ->
  pr_status (parse_tokens (ctoks t) mx ld) = POk /\
  pr_diags (parse_tokens (ctoks t) mx ld) = ld /\
  c_nodes (pr_cst (parse_tokens (ctoks t) mx ld)) = cflat 0 t /\
  c_spans (pr_cst (parse_tokens (ctoks t) mx ld)) = map snd (ctoks t).
Proof. exact parse_complete. Qed.
Print Assumptions C04_parser_complete.

(* the walk on that node vector is the tree-level inference *)
Theorem C04_walk_complete : forall src c d t, jfile src d t -> c_nodes c = cflat 0 t ->
  c_spans c = map snd (ctoks t) -> parse_cst c src = lift_infer (infer_text d).
Proof. exact walk_complete. Qed.
Print Assumptions C04_walk_complete.

(* stage 3, the <= half of C04_main in its strong form: a grammatical text of depth <= 256 is
   converted exactly like its tree (shape, or the duplicate-conflict error) ... *)
Theorem C04_grammatical_converted : forall s d, json_text s d -> jdepth d <= 256 ->
  from_str_m cfg_now s = lift_infer (infer_text d).
Proof. exact from_str_complete_now. Qed.
Print Assumptions C04_grammatical_converted.

(* ... hence accepted when its duplicates are consistent *)
Theorem C04_grammatical_accepted : forall s,
  (exists d, json_text s d /\ jdepth d <= 256 /\ dup_consistent d = true) -> accepts cfg_now s = true.
Proof. exact grammatical_accepted_now. Qed.
Print Assumptions C04_grammatical_accepted.

(* on grammatical texts of depth <= 256 ([text_of s d]) the three other text entry points ARE the
   tree-level entry points of Model/Api.v: every tree-level API theorem transfers to texts *)
Theorem C04_from_sources_is_tree_api : forall srcs ds, Forall2 text_of srcs ds ->
  from_sources_m cfg_now srcs = lift_api (Api.from_sources_tree ds).
Proof. exact from_sources_complete_now. Qed.
Print Assumptions C04_from_sources_is_tree_api.

Theorem C04_is_superset_is_tree_api : forall sh s d, text_of s d ->
  is_superset_m cfg_now sh s = Ok (Api.is_superset_tree sh d).
Proof. exact is_superset_complete_now. Qed.
Print Assumptions C04_is_superset_is_tree_api.

Theorem C04_is_superset_checked_is_tree_api : forall sh s d, text_of s d ->
  is_superset_checked_m cfg_now sh s = WalkComplete.lift_o (Api.is_superset_checked_tree sh d).
Proof. exact is_superset_checked_complete_now. Qed.
Print Assumptions C04_is_superset_checked_is_tree_api.

(* ---------- soundness: what is accepted is JSON ----------
   stage 2, soundness for the whole token list: a silent lexer run on scalar values means the text
   is the concatenation of RFC lexemes (String tokens are RFC strings, no Error token), spans are
   byte positions and the bracket nesting never exceeded 256 *)
Theorem C04_lexer_sound : forall s, Forall scalar s -> l_diags (lex cfg_now s) = [] ->
  lexes 0 s 0 0 (l_toks (lex cfg_now s)).
Proof. exact (lex_sound cfg_now). Qed.
Print Assumptions C04_lexer_sound.

(* stage 1, soundness: a silent run of the recovering parser on such tokens means the token list
   is a tree of the JSON token grammar (Parser::error is never suppressed along a silent run) *)
Theorem C04_parser_sound : forall toks mx, clean toks -> mx <> 0%N ->
  pr_diags (parse_tokens toks mx []) = [] -> exists t, gfile t /\ toks = ctoks t.
Proof. exact parse_sound. Qed.
Print Assumptions C04_parser_sound.

(* a token tree over a silently lexed text is an RFC derivation of depth <= 256 *)
Theorem C04_tree_text : forall t s, gfile t -> lexes 0 s 0 0 (ctoks t) ->
  exists d, json_text s d /\ jdepth d <= 256.
Proof. exact tree_text. Qed.
Print Assumptions C04_tree_text.

(* the pairwise duplicate predicate is exactly "inference succeeds" *)
Theorem C04_dup_consistent_iff : forall d, dup_consistent d = true <-> exists sh, infer_text d = Ok sh.
Proof. exact dup_consistent_iff. Qed.
Print Assumptions C04_dup_consistent_iff.

(* ---------- C04_main: the library accepts exactly RFC 8259 (+- duplicate conflict, +- depth 256) ----------
   [Forall scalar s]: the characters are Unicode scalar values (always true of a Rust &str; in the
   model characters are unbounded naturals, see C04_scalar_needed) *)
Theorem C04_main : forall s, Forall scalar s ->
  (accepts cfg_now s = true <-> exists t, json_text s t /\ jdepth t <= 256 /\ dup_consistent t = true).
Proof. exact c04_main_now. Qed.
Print Assumptions C04_main.

(* ... i.e. the executable oracle of the check IS the model's acceptance *)
Theorem C04_accepts_is_reference : forall s, Forall scalar s -> accepts cfg_now s = ref_accepts s.
Proof. exact accepts_ref_accepts. Qed.
Print Assumptions C04_accepts_is_reference.

Theorem C04_not_json_rejected : forall s, Forall scalar s -> (forall t, ~ json_text s t) -> accepts cfg_now s = false.
Proof. exact not_json_rejected. Qed.
Print Assumptions C04_not_json_rejected.

Theorem C04_too_deep_rejected : forall s t, Forall scalar s -> json_text s t -> 256 < jdepth t -> accepts cfg_now s = false.
Proof. exact too_deep_rejected. Qed.
Print Assumptions C04_too_deep_rejected.

Theorem C04_is_superset_rejects_non_json : forall sh s, Forall scalar s -> (forall t, ~ json_text s t) ->
  is_superset_m cfg_now sh s = Ok false.
Proof. exact is_superset_rejects_non_json. Qed.
Print Assumptions C04_is_superset_rejects_non_json.

Theorem C04_superset_checked_rejects_non_json : forall sh s, Forall scalar s -> (forall t, ~ json_text s t) ->
  exists e, is_superset_checked_m cfg_now sh s = Err e.
Proof. exact superset_checked_rejects_non_json. Qed.
Print Assumptions C04_superset_checked_rejects_non_json.

Theorem C04_from_sources_sound : forall srcs sh, Forall (Forall scalar) srcs -> from_sources_m cfg_now srcs = Ok sh ->
  Forall (fun s => exists t, json_text s t /\ jdepth t <= 256 /\ dup_consistent t = true) srcs.
Proof. exact from_sources_sound. Qed.
Print Assumptions C04_from_sources_sound.

Theorem C04_scalar_needed : accepts cfg_now [34; 2000000; 34]%N = true /\ ref_accepts [34; 2000000; 34]%N = false.
Proof. exact scalar_needed. Qed.
Print Assumptions C04_scalar_needed.

Definition w_unterminated_array : list char := [91; 49; 44; 50]%N.   (* [1,2 *)
Definition w_unterminated_object : list char := [123; 34; 97; 34; 58; 49]%N.   (* {'a':1 *)
Definition w_missing_colon : list char := [123; 34; 97; 34; 32; 49; 125]%N.   (* {'a' 1} *)
Definition w_trailing_comma : list char := [91; 49; 44; 93]%N.   (* [1,] *)
Definition w_bad_escape : list char := [34; 92; 113; 34]%N.   (* '\q' *)
Definition w_raw_newline : list char := [34; 97; 10; 98; 34]%N.   (* 'a<LF>b' *)
Definition w_bad_unicode_escape : list char := [34; 92; 117; 49; 50; 71; 52; 34]%N.   (* '\u12G4' *)
Definition w_deep_open : list char := repeat 91%N 300.                     (* 300 x [ *)
Definition w_deep_closed : list char := repeat 91%N 300 ++ repeat 93%N 300.   (* 300 x [ then 300 x ] *)
Definition w_bare_cr : list char := [49; 13]%N.   (* 1<CR> *)

(* F2, one theorem per class: accepted before the fix, not JSON, rejected now (so the class
   [diag_dropped] of the check is empty on it) *)
Definition cfg_pre : cfg := {| f2_honour_diags := false; f3_cr_newline := false |}.
Definition f2_witness (w : list char) : Prop :=
  accepts cfg_pre w = true /\ ref_accepts w = false /\ diag_dropped w = false /\ accepts cfg_now w = false.

Theorem C04_unterminated_array_fixed : f2_witness w_unterminated_array /\ ref_json w_unterminated_array = None.
Proof. vm_compute. repeat split. Qed.
Print Assumptions C04_unterminated_array_fixed.

Theorem C04_unterminated_object_fixed : f2_witness w_unterminated_object /\ ref_json w_unterminated_object = None.
Proof. vm_compute. repeat split. Qed.
Print Assumptions C04_unterminated_object_fixed.

Theorem C04_missing_colon_fixed : f2_witness w_missing_colon /\ ref_json w_missing_colon = None.
Proof. vm_compute. repeat split. Qed.
Print Assumptions C04_missing_colon_fixed.

Theorem C04_trailing_comma_fixed : f2_witness w_trailing_comma /\ ref_json w_trailing_comma = None.
Proof. vm_compute. repeat split. Qed.
Print Assumptions C04_trailing_comma_fixed.

Theorem C04_bad_escape_fixed : f2_witness w_bad_escape /\ ref_json w_bad_escape = None.
Proof. vm_compute. repeat split. Qed.
Print Assumptions C04_bad_escape_fixed.

Theorem C04_raw_newline_fixed : f2_witness w_raw_newline /\ ref_json w_raw_newline = None.
Proof. vm_compute. repeat split. Qed.
Print Assumptions C04_raw_newline_fixed.

Theorem C04_bad_unicode_escape_fixed : f2_witness w_bad_unicode_escape /\ ref_json w_bad_unicode_escape = None.
Proof. vm_compute. repeat split. Qed.
Print Assumptions C04_bad_unicode_escape_fixed.

Theorem C04_depth_300_open_fixed : f2_witness w_deep_open /\ ref_json w_deep_open = None.
Proof. vm_compute. repeat split. Qed.
Print Assumptions C04_depth_300_open_fixed.

(* grammatical but deeper than 256: the documented exception, accepted today *)
Theorem C04_depth_300_closed_fixed :
  f2_witness w_deep_closed /\ option_map jdepth (ref_json w_deep_closed) = Some 300.
Proof. vm_compute. repeat split. Qed.
Print Assumptions C04_depth_300_closed_fixed.

(* F3: a bare CR is RFC 8259 whitespace, the lexer makes it an Error token *)
Theorem C04_bare_cr_fixed :
  accepts cfg_pre w_bare_cr = false /\ ref_accepts w_bare_cr = true /\ cr_rejected w_bare_cr = false
  /\ accepts cfg_now w_bare_cr = true.
Proof. vm_compute. repeat split. Qed.
Print Assumptions C04_bare_cr_fixed.

(* non-vacuity / extraction guard: the three recognisers on a text with all four whitespace
   characters, every number part, escapes, nesting and a consistent duplicate *)
Example C04_nonvacuous :
  let w := [32; 123; 13; 10; 34; 107; 34; 9; 58; 91; 45; 49; 46; 53; 101; 43; 49; 48; 44; 34; 92; 117; 48; 48; 101; 57; 92; 110;
            34; 44; 110; 117; 108; 108; 93; 44; 34; 107; 34; 58; 91; 48; 44; 34; 34; 44; 110; 117; 108; 108; 93; 10; 125; 10]%N in
  ref_accepts w = true /\ accepts cfg_now w = true /\ accepts cfg_fixed w = true /\ ndiags cfg_now w = 0.
Proof. vm_compute. repeat split. Qed.
