(* C04 — parsing accepts exactly the JSON language (RFC 8259, +- duplicate conflict, +- depth 256).
   Property theorems only (proofs live in Proofs/Text*.v).

   FULL STATEMENT (target; holds of the model with both fixes, [cfg_fixed], and is what the
   check tests on every generated text as "model with F2+F3 = RFC 8259 reference"):

     C04_main : forall s, accepts cfg_fixed s = true <->
                  exists t, json_text s t /\ jdepth t <= 256 /\ dup_consistent t = true

   Proved towards it: soundness of the reference recogniser for the inductive grammar,
   stage 2 in the soundness direction (tokens are RFC lexemes), and under C05 the
   structural invariants of lexer, parser and walk.  NOT proved: completeness of the lexer
   (longest match yields exactly the RFC tokenisation), stage 1 (the recovering parser is
   silent and the walk succeeds iff the token list is grammatical) and their composition.

   Before the fixes F2 (honour the parser diagnostics) and F3 (bare CR is whitespace) the
   statement was FALSE of the code in both directions; the theorems below keep one witness
   per class as a regression: the code before the fixes ([cfg_pre]) accepted / rejected it
   wrongly, the code as it is ([cfg_now]) agrees with the reference. *)
From Coq Require Import List Bool NArith.
Import ListNotations.
From JS Require Import Model.Base Model.Shape Model.Sem Model.Infer Model.Lexer Model.Parser
  Model.Walk Model.TextApi Model.JsonRef Model.TextClasses Proofs.JsonRefSound Proofs.TextLexSpec.

(* the oracle of the check is sound for the inductive grammar: what the executable
   recogniser accepts is a JSON-text of RFC 8259 with exactly that tree *)
Theorem C04_reference_sound : forall s t, ref_json s = Some t -> json_text s t.
Proof. exact ref_json_sound. Qed.
Print Assumptions C04_reference_sound.

Theorem C04_reference_accepts_sound : forall s, ref_accepts s = true ->
  exists t, json_text s t /\ jdepth t <= 256 /\ dup_consistent t = true.
Proof.
  intros s H. unfold ref_accepts in H. destruct (ref_json s) as [t|] eqn:E; [|discriminate].
  apply andb_true_iff in H. destruct H as [Hd Hc]. exists t. split; [apply ref_json_sound; exact E|].
  split; [apply PeanoNat.Nat.leb_le; exact Hd|exact Hc].
Qed.
Print Assumptions C04_reference_accepts_sound.

(* stage 2 (lexeme level), soundness direction: every token the lexer emits carries a text
   that is a lexeme of RFC 8259 of that kind -- whitespace tokens are ws, literal tokens are
   the three literal names, structural tokens the six structural characters, Number tokens
   are `number`, String tokens are quote..quote *)
Theorem C04_lexemes_sound_partial : forall cf c r t w rest, lex1 cf c r = (LOk t, w, rest) -> lexeme_ok t w.
Proof. exact lex1_sound. Qed.
Print Assumptions C04_lexemes_sound_partial.

(* ... and a String token about which check_string reports nothing is an RFC `string`
   (no raw control character, only the eight simple escapes and \uXXXX) *)
Theorem C04_string_token_sound_partial : forall cf c r w rest pos, Forall scalar (c :: r) ->
  lex1 cf c r = (LOk TString, w, rest) -> check_string cf w pos = Some [] -> exists body, string_lit w body.
Proof. exact string_token_sound. Qed.
Print Assumptions C04_string_token_sound_partial.

Definition w_unterminated_array : list char := [91; 49; 44; 50]%N.   (* [1,2 *)
Definition w_unterminated_object : list char := [123; 34; 97; 34; 58; 49]%N.   (* {'a':1 *)
Definition w_missing_colon : list char := [123; 34; 97; 34; 32; 49; 125]%N.   (* {'a' 1} *)
Definition w_trailing_comma : list char := [91; 49; 44; 93]%N.   (* [1,] *)
Definition w_bad_escape : list char := [34; 92; 113; 34]%N.   (* '\q' *)
Definition w_raw_newline : list char := [34; 97; 10; 98; 34]%N.   (* 'a<LF>b' *)
Definition w_bad_unicode_escape : list char := [34; 92; 117; 49; 50; 71; 52; 34]%N.   (* '\u12G4' *)
Definition w_deep_open : list char := repeat 91%N 300.                     (* 300 x [ *)
Definition w_deep_closed : list char := repeat 91%N 300 ++ repeat 93%N 300.   (* 300 x [ then 300 x ] *)
Definition w_bare_cr : list char := [49; 13]%N.   (* 1<CR> *)

(* F2, one theorem per class: accepted before the fix, not JSON, rejected now (so the class
   [diag_dropped] of the check is empty on it) *)
Definition cfg_pre : cfg := {| f2_honour_diags := false; f3_cr_newline := false |}.
Definition f2_witness (w : list char) : Prop :=
  accepts cfg_pre w = true /\ ref_accepts w = false /\ diag_dropped w = false /\ accepts cfg_now w = false.

Theorem C04_unterminated_array_fixed : f2_witness w_unterminated_array /\ ref_json w_unterminated_array = None.
Proof. vm_compute. repeat split. Qed.
Print Assumptions C04_unterminated_array_fixed.

Theorem C04_unterminated_object_fixed : f2_witness w_unterminated_object /\ ref_json w_unterminated_object = None.
Proof. vm_compute. repeat split. Qed.
Print Assumptions C04_unterminated_object_fixed.

Theorem C04_missing_colon_fixed : f2_witness w_missing_colon /\ ref_json w_missing_colon = None.
Proof. vm_compute. repeat split. Qed.
Print Assumptions C04_missing_colon_fixed.

Theorem C04_trailing_comma_fixed : f2_witness w_trailing_comma /\ ref_json w_trailing_comma = None.
Proof. vm_compute. repeat split. Qed.
Print Assumptions C04_trailing_comma_fixed.

Theorem C04_bad_escape_fixed : f2_witness w_bad_escape /\ ref_json w_bad_escape = None.
Proof. vm_compute. repeat split. Qed.
Print Assumptions C04_bad_escape_fixed.

Theorem C04_raw_newline_fixed : f2_witness w_raw_newline /\ ref_json w_raw_newline = None.
Proof. vm_compute. repeat split. Qed.
Print Assumptions C04_raw_newline_fixed.

Theorem C04_bad_unicode_escape_fixed : f2_witness w_bad_unicode_escape /\ ref_json w_bad_unicode_escape = None.
Proof. vm_compute. repeat split. Qed.
Print Assumptions C04_bad_unicode_escape_fixed.

Theorem C04_depth_300_open_fixed : f2_witness w_deep_open /\ ref_json w_deep_open = None.
Proof. vm_compute. repeat split. Qed.
Print Assumptions C04_depth_300_open_fixed.

(* grammatical but deeper than 256: the documented exception, accepted today *)
Theorem C04_depth_300_closed_fixed :
  f2_witness w_deep_closed /\ option_map jdepth (ref_json w_deep_closed) = Some 300.
Proof. vm_compute. repeat split. Qed.
Print Assumptions C04_depth_300_closed_fixed.

(* F3: a bare CR is RFC 8259 whitespace, the lexer makes it an Error token *)
Theorem C04_bare_cr_fixed :
  accepts cfg_pre w_bare_cr = false /\ ref_accepts w_bare_cr = true /\ cr_rejected w_bare_cr = false
  /\ accepts cfg_now w_bare_cr = true.
Proof. vm_compute. repeat split. Qed.
Print Assumptions C04_bare_cr_fixed.

(* non-vacuity / extraction guard: the three recognisers on a text with all four whitespace
   characters, every number part, escapes, nesting and a consistent duplicate *)
Example C04_nonvacuous :
  let w := [32; 123; 13; 10; 34; 107; 34; 9; 58; 91; 45; 49; 46; 53; 101; 43; 49; 48; 44; 34; 92; 117; 48; 48; 101; 57; 92; 110;
            34; 44; 110; 117; 108; 108; 93; 44; 34; 107; 34; 58; 91; 48; 44; 34; 34; 44; 110; 117; 108; 108; 93; 10; 125; 10]%N in
  ref_accepts w = true /\ accepts cfg_now w = true /\ accepts cfg_fixed w = true /\ ndiags cfg_now w = 0.
Proof. vm_compute. repeat split. Qed.
