(* C12 — cost grows polynomially with input size.  Unit of work: calls of the four recursive
   entry points (the verif_hooks counters), predicted exactly by the instrumented twins of
   Model/Cost.v; heap allocations are measured by the check, not modelled. *)
From Coq Require Import List Bool NArith Arith.
Import ListNotations.
From JS Require Import Model.Base Model.Shape Model.Sem Model.Subset Model.Merger Model.Infer Model.Cost
  Proofs.CostFacts.

(* the twin computes the same answer and at most |a|*|b| calls *)
Theorem C12_subset_twin : forall a b, fst (subset_c a b) = is_subset a b.
Proof. exact subset_c_result. Qed.
Print Assumptions C12_subset_twin.

Theorem C12_subset_calls : forall a b, snd (subset_c a b) <= size a * size b.
Proof. exact subset_c_bound. Qed.
Print Assumptions C12_subset_calls.

(* one merge: at most min(|a|,|b|) merger calls and 2|a||b| subset calls *)
Theorem C12_merger_calls : forall a b, wf a = true -> wf b = true ->
  fst (merger_c a b) <= Nat.min (size a) (size b) /\ snd (merger_c a b) <= 2 * (size a * size b).
Proof. exact merger_c_bound. Qed.
Print Assumptions C12_merger_calls.

(* merging n sources: merger calls bounded by the total size of the sources *)
Theorem C12_merge_calls : forall r acc, wf acc = true -> Forall (fun s => wf s = true) r ->
  fold_calls acc r <= sumsz r.
Proof. exact merge_calls_linear. Qed.
Print Assumptions C12_merge_calls.

(* single-document inference (both paths): one call per document node — each level of nesting
   adds the size of that level *)
Theorem C12_infer_calls : forall d, calls_infer d = jsize d.
Proof. exact infer_calls_linear. Qed.
Print Assumptions C12_infer_calls.

Example C12_nonvacuous :
  let a := SOneOf [SObject [([97%N], SNumber false)] false; SObject [([97%N], SString false)] false] false in
  let b := SOneOf [SObject [([97%N], SOneOf [SNumber false; SString false] false)] false] false in
  subset_c a b = (true, 5) /\ size a * size b = 25.
Proof. vm_compute. split; reflexivity. Qed.
