(* Merger.v — merger / merge (json_shape/src/shape/merger.rs:8-1163), arm for arm but
   factored: the ~70 Rust arms fall into the families below (DESIGN.md appendix A.1).
   Every Rust arm returns Ok, so [merger] returns a shape; [merge] carries the only error
   (EmptyFile).  No proofs in this file. *)
From Coq Require Import List Bool NArith.
Import ListNotations.
From JS Require Import Model.Base Model.Shape Model.Subset.

(* `if c && !variants.contains(&Null) { variants.insert(Null) }` *)
Definition null_if (c : bool) (vs : list shape) : list shape :=
  if c then sset_insert SNull vs else vs.

(* `OneOf { variants: [x, y, Null?].into(), optional: false }` *)
Definition kind_pair (x y : shape) (nul : bool) : shape :=
  SOneOf (null_if nul (sset_insert y (sset_insert x []))) false.

(* `X + OneOf[..]` for X a scalar / array / object / tuple with flag o (merger.rs:215-230 &c) *)
Definition into_oneof (x : shape) (o : bool) (vs : list shape) (oo : bool) : shape :=
  SOneOf (sset_insert (as_non_optional x) (null_if o vs)) oo.

(* insert_flat (merger.rs): a OneOf contributes its variants, anything else its non-optional form *)
Definition insert_flat (t : shape) (acc : list shape) : list shape :=
  match t with
  | SOneOf vs _ => sset_union acc vs
  | _ => sset_insert (as_non_optional t) acc
  end.

(* Array<t> + Tuple(es) and Tuple(es) + Array<t> *)
Definition tuple_array_set (t : shape) (es : list shape) : list shape :=
  fold_left (fun acc e => sset_insert (as_non_optional e) acc) es
            (insert_flat t (null_if (existsb is_optional es || is_optional t) [])).

(* Tuple + Tuple, per position (merger.rs:1105-1124) *)
Definition fold_pair (a b : shape) : option shape :=
  if is_subset a b then Some b
  else if is_subset b a then Some a
  else if is_null b then Some (as_optional a)
  else if is_null a then Some (as_optional b)
  else None.

Fixpoint fold_tuple (es os : list shape) : option (list shape) :=
  match es, os with
  | [], [] => Some []
  | e :: es', x :: os' =>
      match fold_pair e x, fold_tuple es' os' with
      | Some v, Some r => Some (v :: r)
      | _, _ => None
      end
  | _, _ => None
  end.

(* Tuple + Tuple that does not fold (merger.rs:1130-1148) *)
Definition tuples_set (es os : list shape) : list shape :=
  fold_left (fun acc e => sset_insert (as_non_optional e) acc) os
    (fold_left (fun acc e => sset_insert (as_non_optional e) acc) es
       (null_if (existsb is_optional es || existsb is_optional os) [])).

Definition is_scalar (s : shape) : bool :=
  match s with SBool _ | SNumber _ | SString _ => true | _ => false end.

Fixpoint merger (a b : shape) {struct a} : shape :=
  match a with
  | SNull => as_optional b
  | SBool o | SNumber o | SString o =>
      match b with
      | SNull => as_optional a
      | SOneOf vs oo => into_oneof a o vs oo
      | _ =>
          if N.eqb (tag a) (tag b) then set_flag (o || is_optional b) a
          else kind_pair (as_non_optional a) (as_non_optional b) (o || is_optional b)
      end
  | SArray t o =>
      match b with
      | SNull => SArray t true
      | SArray t' o' => SArray (merger t t') (o || o')
      | STuple es o' => SArray (SOneOf (tuple_array_set t es) false) (o || o')
      | SOneOf vs oo => into_oneof a o vs oo
      | _ => kind_pair (as_non_optional a) (as_non_optional b) (o || is_optional b)
      end
  | SObject c o =>
      match b with
      | SNull => SObject c true
      | SObject c' o' =>
          SObject
            ((fix go (c : list (key * shape)) (other acc : list (key * shape)) {struct c}
                : list (key * shape) :=
                match c with
                | [] => fold_left (fun acc kv => map_insert (fst kv) (as_optional (snd kv)) acc)
                                  other acc
                | (k, v) :: r =>
                    match map_get k other with
                    | Some ov => go r (map_remove k other) (map_insert k (merger v ov) acc)
                    | None => go r other (map_insert k (as_optional v) acc)
                    end
                end) c c' [])
            (o || o')
      | SOneOf vs oo => into_oneof a o vs oo
      | _ => kind_pair (as_non_optional a) (as_non_optional b) (o || is_optional b)
      end
  | SOneOf vs o =>
      match b with
      | SNull => SOneOf vs true
      | SOneOf ws o' => SOneOf (sset_union vs ws) (o || o')
      | _ => SOneOf (sset_insert (as_non_optional b) (null_if (is_optional b) vs)) o
      end
  | STuple es o =>
      match b with
      | SNull => STuple es true
      | SArray t o' => SArray (SOneOf (tuple_array_set t es) false) (o' || o)
      | STuple os o' =>
          match fold_tuple es os with
          | Some folded => STuple folded (o || o')
          | None => SArray (SOneOf (tuples_set es os) false) (o || o')
          end
      | SOneOf vs oo => into_oneof a o vs oo
      | _ => kind_pair (as_non_optional a) (as_non_optional b) (o || is_optional b)
      end
  end.

Inductive merr : Type := EmptyFile | CannotMerge.   (* CannotMerge is dead in the Rust code too *)

(* merger.rs:8-12 *)
Definition merge (vs : list shape) : outcome merr shape :=
  match vs with
  | [] => Err EmptyFile
  | v :: r => Ok (fold_left merger r v)
  end.

(* hypothesis of the C09 convergence theorem: no Array<Null> node (documents [null,..] and []) *)
Fixpoint no_null_array (s : shape) : bool :=
  match s with
  | SNull | SBool _ | SNumber _ | SString _ => true
  | SArray t _ => negb (is_null t) && no_null_array t
  | SObject c _ => forallb (fun p => no_null_array (snd p)) c
  | SOneOf vs _ => forallb no_null_array vs
  | STuple es _ => forallb no_null_array es
  end.
