(* Lexer.v — json_shape/src/lexer.rs as an executable function.
   Input: the source as a list of Unicode scalar values; every span is a BYTE range
   obtained by summing [utf8_len].  logos 0.16 is generated code: its semantics is
   modelled here (longest match, priority of literal tokens over the word regex at equal
   length, one `Err` per unmatched character / live prefix) and validated by the token
   correspondence of C04/C05 (tools/props/C04.py).  The hand-written parts ([parse_string],
   [check_string] with its char-index arithmetic, the nesting cap) are transliterated.
   The two switches of [cfg] are the planned fixes F2/F3; [cfg_now] is the code as it is.
   No proofs in this file. *)
From Coq Require Import List Bool NArith.
Import ListNotations.
From JS Require Import Model.Base.
Local Open Scope N_scope.

Definition char := N.                 (* Unicode scalar value *)
Definition span := (N * N)%type.      (* byte range start..end *)

Record cfg : Type := {
  f2_honour_diags : bool;     (* F2: lib.rs rejects when lexer/parser reported a diagnostic *)
  f3_cr_newline : bool        (* F3: a bare CR is a Newline token (RFC 8259 whitespace) *)
}.
(* the code as it is now: fixes 55cd6d2 (F2, honour diagnostics) and c07047e (F3, bare CR) applied *)
Definition cfg_now : cfg := {| f2_honour_diags := true; f3_cr_newline := true |}.
Definition cfg_fixed : cfg := {| f2_honour_diags := true; f3_cr_newline := true |}.

(* ---------- UTF-8 ---------- *)
Definition utf8_len (c : char) : N :=
  if c <? 128 then 1 else if c <? 2048 then 2 else if c <? 65536 then 3 else 4.

Fixpoint byte_len (cs : list char) : N :=
  match cs with [] => 0 | c :: r => utf8_len c + byte_len r end.

Definition utf8_encode1 (c : char) : list N :=
  if c <? 128 then [c]
  else if c <? 2048 then [192 + c / 64; 128 + c mod 64]
  else if c <? 65536 then [224 + c / 4096; 128 + (c / 64) mod 64; 128 + c mod 64]
  else [240 + c / 262144; 128 + (c / 4096) mod 64; 128 + (c / 64) mod 64; 128 + c mod 64].

Definition utf8_encode (cs : list char) : list N := flat_map utf8_encode1 cs.

(* ---------- tokens (lexer.rs:104-135) ---------- *)
Inductive tok : Type :=
| TEOF | TWhitespace | TNewline | TTrue | TFalse | TNull
| TLBrace | TRBrace | TLBrak | TRBrak | TComma | TColon
| TString | TNumber | TError.

Definition tok_eqb (a b : tok) : bool :=
  match a, b with
  | TEOF, TEOF | TWhitespace, TWhitespace | TNewline, TNewline | TTrue, TTrue
  | TFalse, TFalse | TNull, TNull | TLBrace, TLBrace | TRBrace, TRBrace
  | TLBrak, TLBrak | TRBrak, TRBrak | TComma, TComma | TColon, TColon
  | TString, TString | TNumber, TNumber | TError, TError => true
  | _, _ => false
  end.

(* diagnostics: only their number is observable today (lib.rs drops them); the ranges are
   reproduced as computed, because F2 makes the first one observable *)
Inductive dkind : Type :=
| DInvalid | DUnterminated | DEscape | DUnicode | DCtrl | DNesting | DSyntax.
Definition diag := (dkind * span)%type.

(* ---------- character classes ---------- *)
Definition is_dec_digit (c : char) : bool := (48 <=? c) && (c <=? 57).
Definition is_digit19 (c : char) : bool := (49 <=? c) && (c <=? 57).
Definition is_alpha (c : char) : bool :=
  ((65 <=? c) && (c <=? 90)) || ((97 <=? c) && (c <=? 122)).
Definition is_alnum (c : char) : bool := is_alpha c || is_dec_digit c.
Definition is_hexdigit (c : char) : bool :=          (* char::is_ascii_hexdigit *)
  is_dec_digit c || ((65 <=? c) && (c <=? 70)) || ((97 <=? c) && (c <=? 102)).
Definition is_blank (c : char) : bool := (c =? 32) || (c =? 9).     (* [ \u0009] *)
Definition is_simple_escape (c : char) : bool :=      (* quote backslash / b f n r t *)
  (c =? 34) || (c =? 92) || (c =? 47) || (c =? 98) || (c =? 102) || (c =? 110)
  || (c =? 114) || (c =? 116).

(* longest prefix whose characters satisfy p *)
Fixpoint split_while (p : char -> bool) (cs : list char) : list char * list char :=
  match cs with
  | c :: r => if p c then let '(w, r') := split_while p r in (c :: w, r') else ([], cs)
  | [] => ([], [])
  end.

Fixpoint chars_eqb (a b : list char) : bool :=
  match a, b with
  | [], [] => true
  | x :: a', y :: b' => (x =? y) && chars_eqb a' b'
  | _, _ => false
  end.

(* ---------- the number regex: optional minus, 0 or [1-9][0-9]..., optional .digits+,
   optional [eE][+-]?digits+ (lexer.rs:132) ----------
   each scanner returns (lexeme, rest); the optional groups match greedily or not at all,
   which for this regex is the longest match *)
Definition scan_int (cs : list char) : option (list char * list char) :=
  match cs with
  | c :: r =>
      if c =? 48 then Some ([c], r)
      else if is_digit19 c then let '(w, r') := split_while is_dec_digit r in Some (c :: w, r')
      else None
  | [] => None
  end.

Definition scan_frac (cs : list char) : list char * list char :=
  match cs with
  | c :: r =>
      if c =? 46 then
        match split_while is_dec_digit r with
        | ([], _) => ([], cs)
        | (w, r') => (c :: w, r')
        end
      else ([], cs)
  | [] => ([], cs)
  end.

Definition scan_exp (cs : list char) : list char * list char :=
  match cs with
  | c :: r =>
      if (c =? 101) || (c =? 69) then
        let '(sg, r1) := match r with
                         | s :: r2 => if (s =? 43) || (s =? 45) then ([s], r2) else ([], r)
                         | [] => ([], r)
                         end in
        match split_while is_dec_digit r1 with
        | ([], _) => ([], cs)
        | (w, r') => (c :: sg ++ w, r')
        end
      else ([], cs)
  | [] => ([], cs)
  end.

Definition scan_number (cs : list char) : option (list char * list char) :=
  let '(m, r0) := match cs with
                  | c :: r => if c =? 45 then ([c], r) else ([], cs)
                  | [] => ([], cs)
                  end in
  match scan_int r0 with
  | None => None
  | Some (a, r1) =>
      let '(b, r2) := scan_frac r1 in
      let '(e, r3) := scan_exp r2 in
      Some (m ++ a ++ b ++ e, r3)
  end.

(* ---------- parse_string (lexer.rs:31-52): the characters after the opening quote ------ *)
Fixpoint scan_string (cs : list char) : option (list char * list char) :=
  match cs with
  | [] => None                                   (* Err(UnterminatedString) *)
  | c :: r =>
      if c =? 34 then Some ([c], r)
      else if c =? 92 then
        match r with
        | [] => None
        | d :: r' => match scan_string r' with
                     | Some (w, x) => Some (c :: d :: w, x)
                     | None => None
                     end
        end
      else match scan_string r with
           | Some (w, x) => Some (c :: w, x)
           | None => None
           end
  end.

(* ---------- check_string (lexer.rs:55-101) ----------
   value = the whole token text, quotes included; [i] is the index of [chars().enumerate()]
   (a CHARACTER index) and is added to the BYTE offset [start], as the Rust code does.
   The nested `it.next()` calls are a small state machine here. [None] = `unreachable!()`. *)
Inductive smode : Type :=
| MNormal
| MEsc                       (* a backslash was just read *)
| MHex (iu : N) (j : N).     (* inside \u at char index iu, j hex digits read so far *)

Fixpoint check_chars (bytes : bool) (start : N) (cs : list char) (i : N) (m : smode)
  : option (list diag) :=
  match cs with
  | [] =>
      match m with
      | MNormal => Some []
      | MEsc => None                                              (* _ => unreachable!() *)
      | MHex iu j => Some [(DUnicode, (start + iu - 1, start + iu + j + 1))]
      end
  | c :: r =>
      let w := if bytes then utf8_len c else 1 in    (* today: enumerate() index, w = 1 *)
      match m with
      | MNormal =>
          if c =? 92 then check_chars bytes start r (i + w) MEsc
          else if 32 <=? c then check_chars bytes start r (i + w) MNormal
          else option_map (cons (DCtrl, (start + i, start + i + 1)))
                          (check_chars bytes start r (i + w) MNormal)
      | MEsc =>
          if is_simple_escape c then check_chars bytes start r (i + w) MNormal
          else if c =? 117 then check_chars bytes start r (i + w) (MHex i 0)
          else option_map (cons (DEscape, (start + i - 1, start + i + w)))
                          (check_chars bytes start r (i + w) MNormal)
      | MHex iu j =>
          if is_hexdigit c then
            check_chars bytes start r (i + w) (if j =? 3 then MNormal else MHex iu (j + 1))
          else option_map (cons (DUnicode, (start + iu - 1, start + iu + j + 1)))
                          (check_chars bytes start r (i + w) MNormal)
      end
  end.

(* F2 also repairs the ranges: byte offsets (char_indices) instead of character indices,
   so that the first diagnostic's range can be reported *)
Definition check_string (cf : cfg) (value : list char) (start : N) : option (list diag) :=
  check_chars (f2_honour_diags cf) start value 0 MNormal.

(* ---------- one logos step at a non-empty remainder ---------- *)
Inductive lres : Type :=
| LOk (t : tok)
| LInvalid              (* Err(LexerError::Invalid): no match, or the word regex callback *)
| LUnterminated.        (* Err(LexerError::UnterminatedString) *)

Definition w_true : list char := [116; 114; 117; 101].
Definition w_false : list char := [102; 97; 108; 115; 101].
Definition w_null : list char := [110; 117; 108; 108].

Definition punct (c : char) : option tok :=
  if c =? 123 then Some TLBrace else if c =? 125 then Some TRBrace
  else if c =? 91 then Some TLBrak else if c =? 93 then Some TRBrak
  else if c =? 44 then Some TComma else if c =? 58 then Some TColon
  else None.

(* (result, lexeme, rest) *)
Definition lex1 (cf : cfg) (c : char) (r : list char) : lres * list char * list char :=
  if is_blank c then
    let '(w, r') := split_while is_blank r in (LOk TWhitespace, c :: w, r')
  else if c =? 10 then (LOk TNewline, [c], r)
  else if c =? 13 then
    match r with
    | d :: r' =>
        if d =? 10 then (LOk TNewline, [c; d], r')
        else ((if f3_cr_newline cf then LOk TNewline else LInvalid), [c], r)
    | [] => ((if f3_cr_newline cf then LOk TNewline else LInvalid), [c], r)
    end
  else
    match punct c with
    | Some t => (LOk t, [c], r)
    | None =>
        if c =? 34 then
          match scan_string r with
          | Some (w, r') => (LOk TString, c :: w, r')
          | None => (LUnterminated, c :: r, [])         (* every remaining byte was bumped *)
          end
        else if (c =? 45) || is_dec_digit c then
          match scan_number (c :: r) with
          | Some (w, r') => (LOk TNumber, w, r')
          | None => (LInvalid, [c], r)                  (* '-' not followed by a digit *)
          end
        else if is_alpha c then
          let '(w, r') := split_while is_alnum r in
          let word := c :: w in
          ((if chars_eqb word w_true then LOk TTrue
            else if chars_eqb word w_false then LOk TFalse
            else if chars_eqb word w_null then LOk TNull
            else LInvalid), word, r')                   (* word regex, callback false *)
        else (LInvalid, [c], r)                         (* one character, to its boundary *)
    end.

(* ---------- tokenize (lexer.rs:158-201) ---------- *)
Inductive lstatus : Type := LDone | LPanic | LFuel.

Record lexed : Type := {
  l_toks : list (tok * span);
  l_diags : list diag;
  l_status : lstatus
}.

Definition lcons (ts : tok * span) (ds : list diag) (x : lexed) : lexed :=
  {| l_toks := ts :: l_toks x; l_diags := ds ++ l_diags x; l_status := l_status x |}.

Definition bracket_delta (t : tok) (opens closes : N) : N * N :=
  match t with
  | TLBrace | TLBrak => (opens + 1, closes)
  | TRBrace | TRBrak => (opens, closes + 1)
  | _ => (opens, closes)
  end.

(* [opens]/[closes]: how many opening / closing brackets were seen; the Rust test
   `count_brace + count_brak > 256` on signed counters is `opens > closes + 256` *)
Fixpoint lex_loop (cf : cfg) (fuel : nat) (pos : N) (cs : list char) (opens closes : N) : lexed :=
  match cs with
  | [] => {| l_toks := []; l_diags := []; l_status := LDone |}
  | c :: r =>
      match fuel with
      | O => {| l_toks := []; l_diags := []; l_status := LFuel |}
      | S fuel' =>
          let '(res, lexeme, rest) := lex1 cf c r in
          let sp := (pos, pos + byte_len lexeme) in
          match res with
          | LOk t =>
              match (match t with TString => check_string cf lexeme pos | _ => Some [] end) with
              | None => {| l_toks := []; l_diags := []; l_status := LPanic |}
              | Some ds =>
                  let '(o', c') := bracket_delta t opens closes in
                  if c' + 256 <? o' then
                    {| l_toks := []; l_diags := ds ++ [(DNesting, sp)]; l_status := LDone |}
                  else lcons (t, sp) ds (lex_loop cf fuel' (snd sp) rest o' c')
              end
          | LInvalid => lcons (TError, sp) [(DInvalid, sp)] (lex_loop cf fuel' (snd sp) rest opens closes)
          | LUnterminated =>
              lcons (TError, sp) [(DUnterminated, sp)] (lex_loop cf fuel' (snd sp) rest opens closes)
          end
      end
  end.

Definition lex (cf : cfg) (cs : list char) : lexed :=
  lex_loop cf (length cs) 0 cs 0 0.
