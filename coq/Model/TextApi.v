(* TextApi.v — the public text entry points (json_shape/src/lib.rs:38-128) on top of the
   lexer, parser and walk models: FromStr, from_sources, is_superset, is_superset_checked.
   lib.rs passes a diagnostics buffer to the parser and drops it; [f2_honour_diags] is the
   planned repair (reject when lexer or parser reported anything; the error carries the
   first diagnostic's range).  No proofs in this file. *)
From Coq Require Import List Bool NArith.
Import ListNotations.
From JS Require Import Model.Base Model.Shape Model.Sem Model.Subset Model.Merger Model.Infer
  Model.Lexer Model.Parser Model.Walk.

(* Parser::parse(source, diags): tokenize + rule_file *)
Definition parse_text (cf : cfg) (src : list char) : lexed * parsed :=
  let lx := lex cf src in
  (lx, parse_tokens (l_toks lx) (byte_len src) (l_diags lx)).

Definition from_str_m (cf : cfg) (src : list char) : tout shape :=
  let '(lx, pr) := parse_text cf src in
  match l_status lx, pr_status pr with
  | LPanic, _ | _, PPanic => Panic
  | LFuel, _ | _, PFuel => Err EFuel
  | LDone, POk =>
      obind (parse_cst (pr_cst pr) src) (fun s =>
        if f2_honour_diags cf then
          match pr_diags pr with
          | [] => Ok s
          | (_, sp) :: _ =>
              match slice_src src sp with
              | Some fr => Err (EInvalidJson sp fr)
              | None => Panic
              end
          end
        else Ok s)
  end.

(* lib.rs:57-66: every source in order (first error wins), then merge *)
Definition from_sources_m (cf : cfg) (srcs : list (list char)) : tout shape :=
  obind (mapM_o (from_str_m cf) srcs) (fun ss =>
    match merge ss with
    | Ok s => Ok s
    | Err EmptyFile => Err EEmptyFile
    | Err CannotMerge => Err EUnknown            (* dead in the Rust code too *)
    | Panic => Panic
    end).

(* lib.rs:108-114; the outcome is only there to carry a Panic *)
Definition is_superset_m (cf : cfg) (s : shape) (src : list char) : tout bool :=
  match from_str_m cf src with
  | Ok sd => Ok (is_subset sd s)
  | Err _ => Ok false
  | Panic => Panic
  end.

(* lib.rs:124-128 *)
Definition is_superset_checked_m (cf : cfg) (s : shape) (src : list char) : tout bool :=
  obind (from_str_m cf src) (fun sd => Ok (is_subset sd s)).

(* acceptance, the observable C04 is about *)
Definition accepts (cf : cfg) (src : list char) : bool :=
  match from_str_m cf src with Ok _ => true | _ => false end.
