(* Base.v — generic executable definitions shared by every model layer:
   outcomes (Rust Result + panic as a value), comparison helpers, and the BTreeSet /
   BTreeMap API implemented on (strictly sorted) lists.  No proofs in this file. *)
From Coq Require Import List Bool NArith.
Import ListNotations.

(* ---------- outcomes ---------- *)
Inductive outcome (E A : Type) : Type :=
| Ok (a : A)
| Err (e : E)
| Panic.
Arguments Ok {E A} a.
Arguments Err {E A} e.
Arguments Panic {E A}.

Definition obind {E A B} (x : outcome E A) (f : A -> outcome E B) : outcome E B :=
  match x with Ok a => f a | Err e => Err e | Panic => Panic end.

(* ---------- comparisons ---------- *)
Definition is_eq (c : comparison) : bool := match c with Eq => true | _ => false end.
Definition thenc (c d : comparison) : comparison := match c with Eq => d | _ => c end.

Definition cmp_bool (a b : bool) : comparison :=
  match a, b with
  | false, true => Lt
  | true, false => Gt
  | _, _ => Eq
  end.

(* lexicographic order of two lists (Rust: Vec/BTreeSet/BTreeMap/String derive it) *)
Definition lex_cmp {A : Type} (f : A -> A -> comparison) : list A -> list A -> comparison :=
  fix go (l l' : list A) : comparison :=
    match l, l' with
    | [], [] => Eq
    | [], _ :: _ => Lt
    | _ :: _, [] => Gt
    | x :: r, y :: r' => thenc (f x y) (go r r')
    end.

(* pointwise test of two lists of equal length (Rust: zip().all() && len == len) *)
Fixpoint forall2b {A B} (f : A -> B -> bool) (l : list A) (l' : list B) : bool :=
  match l, l' with
  | [], [] => true
  | x :: r, y :: r' => f x y && forall2b f r r'
  | _, _ => false
  end.

(* member names: UTF-8 bytes, compared bytewise like Rust's String *)
Definition key := list N.
Definition cmp_key : key -> key -> comparison := lex_cmp N.compare.
Definition key_eqb (a b : key) : bool := is_eq (cmp_key a b).

(* ---------- BTreeSet on a sorted list ---------- *)
Section SetOps.
  Context {A : Type} (cmp : A -> A -> comparison).

  Fixpoint set_insert (x : A) (l : list A) : list A :=
    match l with
    | [] => [x]
    | y :: r => match cmp x y with
                | Lt => x :: y :: r
                | Eq => y :: r            (* BTreeSet::insert keeps the element already there *)
                | Gt => y :: set_insert x r
                end
    end.

  Definition set_mem (x : A) (l : list A) : bool :=
    existsb (fun y => is_eq (cmp x y)) l.

  Definition set_union (l extra : list A) : list A :=   (* l.extend(extra) *)
    fold_left (fun acc x => set_insert x acc) extra l.

  Definition set_of_list (l : list A) : list A := set_union [] l.

  Definition set_subset (l l' : list A) : bool := forallb (fun x => set_mem x l') l.

  Fixpoint sorted (l : list A) : bool :=
    match l with
    | [] => true
    | x :: r => match r with
                | [] => true
                | y :: _ => match cmp x y with Lt => sorted r | _ => false end
                end
    end.
End SetOps.

(* ---------- BTreeMap<String, V> on a key-sorted association list ---------- *)
Section MapOps.
  Context {V : Type}.

  Fixpoint map_get (k : key) (l : list (key * V)) : option V :=
    match l with
    | [] => None
    | (k', v) :: r => if key_eqb k k' then Some v else map_get k r
    end.

  Definition map_has (k : key) (l : list (key * V)) : bool :=
    match map_get k l with Some _ => true | None => false end.

  Fixpoint map_insert (k : key) (v : V) (l : list (key * V)) : list (key * V) :=
    match l with
    | [] => [(k, v)]
    | (k', v') :: r => match cmp_key k k' with
                       | Lt => (k, v) :: (k', v') :: r
                       | Eq => (k', v) :: r      (* BTreeMap::insert keeps the old key, replaces the value *)
                       | Gt => (k', v') :: map_insert k v r
                       end
    end.

  Fixpoint map_remove (k : key) (l : list (key * V)) : list (key * V) :=
    match l with
    | [] => []
    | (k', v') :: r => if key_eqb k k' then r else (k', v') :: map_remove k r
    end.

  Definition map_keys (l : list (key * V)) : list key := map fst l.
  Definition map_values (l : list (key * V)) : list V := map snd l.

  Fixpoint keys_sorted (l : list (key * V)) : bool :=
    match l with
    | [] => true
    | (k, _) :: r => match r with
                     | [] => true
                     | (k', _) :: _ => match cmp_key k k' with Lt => keys_sorted r | _ => false end
                     end
    end.
End MapOps.
