(* Repr.v — external representations of a shape (json_shape/src/value.rs):
   - the derived serde representation (externally tagged enum, struct-as-map, BTreeSet as
     array, BTreeMap as object) as a JSON value [ser], its inverse [de], and serde_json's
     compact writer [jv_to_text];
   - the Display text [display] (value.rs:232-303, 363-378).
   Texts are lists of bytes (N).  No proofs in this file. *)
From Coq Require Import List Bool NArith.
Import ListNotations.
From JS Require Import Model.Base Model.Shape.

Definition text := list N.

(* ASCII literal helper: bytes of a Coq string *)
From Coq Require Import Ascii String.
Fixpoint bytes (s : string) : text :=
  match s with
  | EmptyString => []
  | String c r => N_of_ascii c :: bytes r
  end.

(* ---------- serde ---------- *)
Inductive jv : Type :=
| VNull
| VBool (b : bool)
| VStr (s : text)
| VArr (l : list jv)
| VObj (m : list (text * jv)).

Definition flag_obj (o : bool) : text * jv := (bytes "optional", VBool o).
Definition variant (name : string) (fields : list (text * jv)) : jv :=
  VObj [(bytes name, VObj fields)].

Fixpoint ser (s : shape) : jv :=
  match s with
  | SNull => VStr (bytes "Null")
  | SBool o => variant "Bool" [flag_obj o]
  | SNumber o => variant "Number" [flag_obj o]
  | SString o => variant "String" [flag_obj o]
  | SArray t o => variant "Array" [(bytes "type", ser t); flag_obj o]
  | SObject c o => variant "Object" [(bytes "content", VObj (map (fun kv => (fst kv, ser (snd kv))) c)); flag_obj o]
  | SOneOf vs o => variant "OneOf" [(bytes "variants", VArr (map ser vs)); flag_obj o]
  | STuple es o => variant "Tuple" [(bytes "elements", VArr (map ser es)); flag_obj o]
  end.

Definition text_eqb (a b : text) : bool := is_eq (lex_cmp N.compare a b).

Fixpoint field (name : text) (m : list (text * jv)) : option jv :=
  match m with
  | [] => None
  | (k, v) :: r => if text_eqb name k then Some v else field name r
  end.

Definition de_flag (m : list (text * jv)) : option bool :=
  match field (bytes "optional") m with Some (VBool b) => Some b | _ => None end.

Fixpoint opt_all {A} (l : list (option A)) : option (list A) :=
  match l with
  | [] => Some []
  | Some x :: r => match opt_all r with Some xs => Some (x :: xs) | None => None end
  | None :: _ => None
  end.

(* first field called [name], decoded by [f] (defined with the fix inside so that [de] below
   passes the guard check, like List.map) *)
Definition field_with {A} (name : text) (f : jv -> option A) : list (text * jv) -> option A :=
  fix go (m : list (text * jv)) : option A :=
    match m with
    | [] => None
    | (k, v) :: r => if text_eqb name k then f v else go r
    end.

(* what #[derive(Deserialize)] accepts of the values [ser] produces: variant object with the
   struct as a map (fields found by name); sets and maps are rebuilt by insertion *)
Fixpoint de (v : jv) : option shape :=
  match v with
  | VStr s => if text_eqb s (bytes "Null") then Some SNull else None
  | VObj [(tag, VObj m)] =>
      match de_flag m with
      | None => None
      | Some o =>
          if text_eqb tag (bytes "Bool") then Some (SBool o)
          else if text_eqb tag (bytes "Number") then Some (SNumber o)
          else if text_eqb tag (bytes "String") then Some (SString o)
          else if text_eqb tag (bytes "Array") then
            field_with (bytes "type")
              (fun tv => match de tv with Some t => Some (SArray t o) | None => None end) m
          else if text_eqb tag (bytes "Object") then
            field_with (bytes "content")
              (fun cv => match cv with
                         | VObj cm =>
                             match opt_all (map (fun kv => match de (snd kv) with
                                                           | Some s => Some (fst kv, s)
                                                           | None => None
                                                           end) cm) with
                             | Some kvs => Some (SObject (fold_left (fun acc kv => map_insert (fst kv) (snd kv) acc) kvs []) o)
                             | None => None
                             end
                         | _ => None
                         end) m
          else if text_eqb tag (bytes "OneOf") then
            field_with (bytes "variants")
              (fun lv => match lv with
                         | VArr l => match opt_all (map de l) with
                                     | Some vs => Some (SOneOf (fold_left (fun acc x => sset_insert x acc) vs []) o)
                                     | None => None
                                     end
                         | _ => None
                         end) m
          else if text_eqb tag (bytes "Tuple") then
            field_with (bytes "elements")
              (fun lv => match lv with
                         | VArr l => match opt_all (map de l) with
                                     | Some es => Some (STuple es o)
                                     | None => None
                                     end
                         | _ => None
                         end) m
          else None
      end
  | _ => None
  end.

(* the compact writer of serde_json; in strings the double quote, the backslash and control
   characters are escaped, every other byte is written raw *)
Local Open Scope N_scope.

Definition hex_digit (n : N) : N := if N.ltb n 10 then 48 + n else 87 + n.

Definition esc_byte (b : N) : text :=
  if N.eqb b 34 then [92; 34]
  else if N.eqb b 92 then [92; 92]
  else if N.eqb b 8 then [92; 98]
  else if N.eqb b 9 then [92; 116]
  else if N.eqb b 10 then [92; 110]
  else if N.eqb b 12 then [92; 102]
  else if N.eqb b 13 then [92; 114]
  else if N.ltb b 32 then [92; 117; 48; 48; hex_digit (N.div b 16); hex_digit (N.modulo b 16)]
  else [b].

Definition quote (s : text) : text := 34 :: flat_map esc_byte s ++ [34].

Fixpoint join (sep : text) (parts : list text) : text :=
  match parts with
  | [] => []
  | [p] => p
  | p :: r => p ++ sep ++ join sep r
  end.

Fixpoint jv_to_text (v : jv) : text :=
  match v with
  | VNull => bytes "null"
  | VBool true => bytes "true"
  | VBool false => bytes "false"
  | VStr s => quote s
  | VArr l => 91 :: join [44] (map jv_to_text l) ++ [93]
  | VObj m => 123 :: join [44] (map (fun kv => quote (fst kv) ++ 58 :: jv_to_text (snd kv)) m) ++ [125]
  end.

Definition ser_text (s : shape) : text := jv_to_text (ser s).

(* ---------- Display ---------- *)
Definition is_ident_byte (b : N) : bool :=
  (N.leb 48 b && N.leb b 57) || (N.leb 65 b && N.leb b 90) || (N.leb 97 b && N.leb b 122)
  || N.eqb b 95 || N.eqb b 45.

(* value.rs:367-374 on the ASCII domain: all chars alphanumeric, '_' or '-' -> bare key *)
Definition ident_key (k : key) : bool := forallb is_ident_byte k.

Definition wrap_opt (o : bool) (t : text) : text :=
  if o then bytes "Option<" ++ t ++ bytes ">" else t.

Fixpoint display (s : shape) : text :=
  match s with
  | SNull => bytes "Null"
  | SBool o => wrap_opt o (bytes "Boolean")
  | SNumber o => wrap_opt o (bytes "Number")
  | SString o => wrap_opt o (bytes "String")
  | SArray t o => wrap_opt o (bytes "Array<" ++ display t ++ bytes ">")
  | SObject c o =>
      wrap_opt o (bytes "Object{" ++
                  join (bytes ", ")
                       (map (fun kv => (if ident_key (fst kv) then fst kv else 34 :: fst kv ++ [34])
                                       ++ bytes ": " ++ display (snd kv)) c)
                  ++ bytes "}")
  | SOneOf vs o => wrap_opt o (bytes "OneOf[" ++ join (bytes " | ") (map display vs) ++ bytes "]")
  | STuple es o => wrap_opt o (bytes "Tuple(" ++ join (bytes ", ") (map display es) ++ bytes ")")
  end.

(* keys that Display prints bare: the domain of the injectivity clause of C11 *)
Fixpoint ident_keys (s : shape) : bool :=
  match s with
  | SNull | SBool _ | SNumber _ | SString _ => true
  | SArray t _ => ident_keys t
  | SObject c _ => forallb (fun kv => ident_key (fst kv) && negb (match fst kv with [] => true | _ => false end)
                                      && ident_keys (snd kv)) c
  | SOneOf vs _ => forallb ident_keys vs
  | STuple es _ => forallb ident_keys es
  end.
