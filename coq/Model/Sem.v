(* Sem.v — documents (kinds only: shapes never look at scalar values) and the REFERENCE
   meaning of a shape.  [mem] is written from the property text, independently of any
   library code; it is the oracle of C01/C02/C03/C08/C09.  No proofs in this file. *)
From Coq Require Import List Bool NArith.
Import ListNotations.
From JS Require Import Model.Base Model.Shape.

Inductive json : Type :=
| JNull | JBool | JNum | JStr
| JArr (l : list json)
| JObj (m : list (key * json)).     (* document order, duplicates allowed *)

Definition j_is_null (d : json) : bool := match d with JNull => true | _ => false end.

Definition doc_has_key (k : key) (m : list (key * json)) : bool :=
  existsb (fun p => key_eqb k (fst p)) m.

(* mem d s : document d is admitted by shape s.
   Option admits null (or an absent key, see SObject); Array constrains every element;
   Tuple is positional with fixed length; Object admits exactly its listed keys, a listed
   key may be absent iff its shape admits null; OneOf admits any variant. *)
Fixpoint mem (d : json) (s : shape) {struct s} : bool :=
  match s with
  | SNull => j_is_null d
  | SBool o => match d with JBool => true | JNull => o | _ => false end
  | SNumber o => match d with JNum => true | JNull => o | _ => false end
  | SString o => match d with JStr => true | JNull => o | _ => false end
  | SArray t o =>
      match d with
      | JArr l => forallb (fun e => mem e t) l
      | JNull => o
      | _ => false
      end
  | STuple es o =>
      match d with
      | JArr l =>
          (fix go (es : list shape) (l : list json) {struct es} : bool :=
             match es, l with
             | [], [] => true
             | e :: es', x :: l' => mem x e && go es' l'
             | _, _ => false
             end) es l
      | JNull => o
      | _ => false
      end
  | SOneOf vs o => existsb (fun v => mem d v) vs || (j_is_null d && o)
  | SObject c o =>
      match d with
      | JObj m =>
          forallb (fun kv => existsb (fun ks => key_eqb (fst kv) (fst ks) && mem (snd kv) (snd ks)) c) m
          && forallb (fun ks => doc_has_key (fst ks) m || mem JNull (snd ks)) c
      | JNull => o
      | _ => false
      end
  end.

Definition nullable (s : shape) : bool := mem JNull s.

(* inclusion and equivalence of meanings *)
Definition incl_sh (a b : shape) : Prop := forall d, mem d a = true -> mem d b = true.
Definition equiv_sh (a b : shape) : Prop := forall d, mem d a = mem d b.

(* documents without a repeated member name carrying differently-kinded values are what
   C01 quantifies over; [nodup_keys] is the stronger, simpler class used by C06/C17 *)
Fixpoint nodup_keys (d : json) : bool :=
  match d with
  | JArr l => forallb nodup_keys l
  | JObj m =>
      (fix go (m : list (key * json)) : bool :=
         match m with
         | [] => true
         | (k, v) :: r => negb (doc_has_key k r) && nodup_keys v && go r
         end) m
  | _ => true
  end.

Fixpoint jsize (d : json) : nat :=
  match d with
  | JArr l => S (fold_right (fun e n => jsize e + n) 0 l)
  | JObj m => S (fold_right (fun p n => jsize (snd p) + n) 0 m)
  | _ => 1
  end.
