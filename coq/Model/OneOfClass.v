(* OneOfClass.v — the class of shapes on which C03 is a theorem: every OneOf node is a union of
   non-optional scalar kinds (the README's `T + U = OneOf[T | U]` for scalars T, U), with either
   value of its own optional flag.  OneOf-free shapes are trivially in the class.  The complement
   is the known class KF2 of C03.  No proofs in this file. *)
From Coq Require Import List Bool NArith.
Import ListNotations.
From JS Require Import Model.Base Model.Shape.

Definition scalar_variant (v : shape) : bool :=
  match v with
  | SBool false | SNumber false | SString false => true
  | _ => false
  end.

Fixpoint scalar_oneofs (s : shape) : bool :=
  match s with
  | SNull | SBool _ | SNumber _ | SString _ => true
  | SArray t _ => scalar_oneofs t
  | SObject c _ => forallb (fun p => scalar_oneofs (snd p)) c
  | SOneOf vs _ => forallb scalar_variant vs
  | STuple es _ => forallb scalar_oneofs es
  end.

(* a wider candidate class that does NOT work (Properties/C03.v, C03_wider_class_refuted): every OneOf
   variant non-optional and not Null, but allowed to be an Array / Object / Tuple *)
Fixpoint nonopt_variants (s : shape) : bool :=
  match s with
  | SNull | SBool _ | SNumber _ | SString _ => true
  | SArray t _ => nonopt_variants t
  | SObject c _ => forallb (fun p => nonopt_variants (snd p)) c
  | SOneOf vs _ => forallb (fun v => negb (is_optional v) && nonopt_variants v) vs
  | STuple es _ => forallb nonopt_variants es
  end.
