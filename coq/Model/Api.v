(* Api.v — the public entry points at tree level (json_shape/src/lib.rs:38-125):
   FromStr / from_sources / is_superset / is_superset_checked on parsed documents.
   The text level (lexer, parser, CST walk) is layered on top in Model/Text*.v.  No proofs. *)
From Coq Require Import List Bool NArith.
Import ListNotations.
From JS Require Import Model.Base Model.Shape Model.Sem Model.Subset Model.Merger Model.Infer.

Inductive aerr : Type :=
| AInfer (e : ierr)      (* a source failed to parse into a shape *)
| AMerge (e : merr).     (* EmptyFile *)

(* lib.rs:57-66 : every source in order (first error wins), then merge *)
Definition from_sources_tree (ds : list json) : outcome aerr shape :=
  match mapM_o infer_text ds with
  | Ok ss => match merge ss with
             | Ok s => Ok s
             | Err e => Err (AMerge e)
             | Panic => Panic
             end
  | Err e => Err (AInfer e)
  | Panic => Panic
  end.

(* lib.rs:108-114 *)
Definition is_superset_tree (s : shape) (d : json) : bool :=
  match infer_text d with
  | Ok sd => is_subset sd s
  | _ => false
  end.

(* lib.rs:124-128 *)
Definition is_superset_checked_tree (s : shape) (d : json) : outcome ierr bool :=
  obind (infer_text d) (fun sd => Ok (is_subset sd s)).

(* serde/impls.rs:3-21 : JsonVisitor keeps the value and the shape computed from it *)
Definition visitor_tree (d : json) : json * outcome ierr shape := (d, infer_value d).
