(* Cost.v — instrumented twins of the recursive entry points: they return, next to the result,
   the number of calls the Rust code makes (the verif_hooks counters), mirroring its
   short-circuit evaluation order.  Unit of work of C12.  No proofs in this file. *)
From Coq Require Import List Bool NArith Arith.
Import ListNotations.
From JS Require Import Model.Base Model.Shape Model.Sem Model.Subset Model.Merger.

(* Iterator::all / Iterator::any with a counting predicate (short-circuit) *)
Definition all_c {A} (f : A -> bool * nat) : list A -> bool * nat :=
  fix go (l : list A) : bool * nat :=
    match l with
    | [] => (true, 0)
    | x :: r => let (b, n) := f x in
                if b then let (b', n') := go r in (b', n + n') else (false, n)
    end.

Definition any_c {A} (f : A -> bool * nat) : list A -> bool * nat :=
  fix go (l : list A) : bool * nat :=
    match l with
    | [] => (false, 0)
    | x :: r => let (b, n) := f x in
                if b then (true, n) else let (b', n') := go r in (b', n + n')
    end.

(* calls of IsSubset::is_subset made by `a.is_subset(b)`, the top call included *)
Fixpoint subset_c (a b : shape) {struct a} : bool * nat :=
  match a with
  | SNull | SBool _ | SNumber _ | SString _ => (is_subset a b, 1)
  | SArray t o =>
      match b with
      | SArray t' o' => if implb o o' then let (r, n) := subset_c t t' in (r, S n) else (false, 1)
      | _ => (is_subset a b, 1)
      end
  | STuple es o =>
      match b with
      | STuple os o' =>
          if implb o o' then
            let (r, n) :=
              (fix go (es os : list shape) {struct es} : bool * nat :=
                 match es, os with
                 | e :: es', x :: os' =>
                     let (b, n) := subset_c e x in
                     if b then let (b', n') := go es' os' in (b', n + n') else (false, n)
                 | _, _ => (true, 0)
                 end) es os in
            (r && Nat.eqb (length es) (length os), S n)
          else (false, 1)
      | _ => (is_subset a b, 1)
      end
  | SObject c o =>
      let obj_c (c' : list (key * shape)) : bool * nat :=
        if forallb (fun kv => map_has (fst kv) c || is_optional (snd kv)) c'
        then (fix go (c : list (key * shape)) : bool * nat :=
                match c with
                | [] => (true, 0)
                | (k, v) :: r =>
                    let (b, n) := match map_get k c' with
                                  | Some ov => subset_c v ov
                                  | None => (false, 0)
                                  end in
                    if b then let (b', n') := go r in (b', n + n') else (false, n)
                end) c
        else (false, 0) in
      match b with
      | SObject c' o' => if implb o o' then let (r, n) := obj_c c' in (r, S n) else (false, 1)
      | SOneOf vs _ =>
          let (r, n) := any_c (fun var => match var with
                                          | SObject c' o' =>
                                              if implb o o' then let (r, n) := obj_c c' in (r, S n)
                                              else (false, 1)
                                          | _ => (false, 0)
                                          end) vs in
          (r, S n)
      | _ => (false, 1)
      end
  | SOneOf vs o =>
      match b with
      | SOneOf ws o' =>
          if implb o o' then
            if sset_subset vs ws then (true, 1)
            else let (r, n) :=
                   (fix go (vs : list shape) : bool * nat :=
                      match vs with
                      | [] => (true, 0)
                      | v :: r =>
                          let (b, n) := any_c (fun w => subset_c v w) ws in
                          if b then let (b', n') := go r in (b', n + n') else (false, n)
                      end) vs in
                 (r, S n)
          else (false, 1)
      | _ => (false, 1)
      end
  end.

(* Tuple + Tuple, per position: the closure of merger.rs:1108-1120 *)
Definition fold_pair_c (a b : shape) : option shape * nat :=
  let (r1, n1) := subset_c a b in
  if r1 then (Some b, n1)
  else let (r2, n2) := subset_c b a in
       if r2 then (Some a, n1 + n2)
       else if is_null b then (Some (as_optional a), n1 + n2)
       else if is_null a then (Some (as_optional b), n1 + n2)
       else (None, n1 + n2).

(* map(closure).try_fold: stops at the first None *)
Fixpoint fold_tuple_c (es os : list shape) : nat :=
  match es, os with
  | e :: es', x :: os' =>
      let (v, n) := fold_pair_c e x in
      match v with Some _ => n + fold_tuple_c es' os' | None => n end
  | _, _ => 0
  end.

(* (calls of merger, calls of is_subset) made by `merger(a, b)`, the top call included *)
Fixpoint merger_c (a b : shape) {struct a} : nat * nat :=
  match a, b with
  | SArray t _, SArray t' _ => let (m, s) := merger_c t t' in (S m, s)
  | SObject c _, SObject c' _ =>
      let (m, s) :=
        (fix go (c : list (key * shape)) : nat * nat :=
           match c with
           | [] => (0, 0)
           | (k, v) :: r =>
               let (m1, s1) := match map_get k c' with
                               | Some ov => merger_c v ov
                               | None => (0, 0)
                               end in
               let (m2, s2) := go r in (m1 + m2, s1 + s2)
           end) c in
      (S m, s)
  | STuple es _, STuple os _ => (1, fold_tuple_c es os)
  | _, _ => (1, 0)
  end.

(* single-document inference visits every node once (text walk: parse_rule; value path:
   From<&serde_json::Value>) *)
Definition calls_infer (d : json) : nat := jsize d.
