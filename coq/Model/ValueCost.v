(* ValueCost.v — how many times `From<&serde_json::Value>` (json_shape/src/serde.rs:18-100)
   is entered for one document: the twin of hook counter 0.  Since commit 8fc1b9d (F9) the
   array arm converts its children once (`values.iter().map(Self::from).collect()`) and
   classifies the resulting vector, so every value is entered exactly once.
   Used by C05 ("time proportional to a small polynomial of the input size") as the
   count-based criterion.  No proofs in this file. *)
From Coq Require Import List Bool NArith.
Import ListNotations.
From JS Require Import Model.Base Model.Shape Model.Sem.
Local Open Scope N_scope.

Definition sumN (l : list N) : N := fold_right N.add 0 l.

Fixpoint vcalls (d : json) : N :=
  match d with
  | JArr l => 1 + sumN (map vcalls l)
  | JObj m => 1 + sumN (map (fun kv => vcalls (snd kv)) m)
  | _ => 1
  end.

Definition jnodes (d : json) : N := N.of_nat (jsize d).

(* the count-based C05 criterion for the value path *)
Definition value_cost_excess (d : json) : bool := 4 * jnodes d <? vcalls d.
