(* Shape.v — the JsonShape datatype (json_shape/src/value.rs:22-76), Rust's derived Ord
   on it, the optional-flag helpers (value.rs:78-170) and the well-formedness invariant
   that BTreeSet/BTreeMap give for free in Rust.  No proofs in this file. *)
From Coq Require Import List Bool NArith.
Import ListNotations.
From JS Require Import Model.Base.

Inductive shape : Type :=
| SNull
| SBool   (o : bool)
| SNumber (o : bool)
| SString (o : bool)
| SArray  (t : shape) (o : bool)
| SObject (c : list (key * shape)) (o : bool)   (* BTreeMap<String, Value> *)
| SOneOf  (vs : list shape) (o : bool)          (* BTreeSet<Value> *)
| STuple  (es : list shape) (o : bool).         (* Vec<Value> *)

(* variant index, as #[derive(PartialOrd, Ord)] uses it *)
Definition tag (s : shape) : N :=
  match s with
  | SNull => 0 | SBool _ => 1 | SNumber _ => 2 | SString _ => 3
  | SArray _ _ => 4 | SObject _ _ => 5 | SOneOf _ _ => 6 | STuple _ _ => 7
  end%N.

(* derived Ord: variant index first, then the fields in declaration order *)
Fixpoint cmp (a b : shape) {struct a} : comparison :=
  match a, b with
  | SNull, SNull => Eq
  | SBool o, SBool o' => cmp_bool o o'
  | SNumber o, SNumber o' => cmp_bool o o'
  | SString o, SString o' => cmp_bool o o'
  | SArray t o, SArray t' o' => thenc (cmp t t') (cmp_bool o o')
  | SObject c o, SObject c' o' =>
      thenc (lex_cmp (fun p q => thenc (cmp_key (fst p) (fst q)) (cmp (snd p) (snd q))) c c')
            (cmp_bool o o')
  | SOneOf vs o, SOneOf vs' o' => thenc (lex_cmp cmp vs vs') (cmp_bool o o')
  | STuple es o, STuple es' o' => thenc (lex_cmp cmp es es') (cmp_bool o o')
  | _, _ => N.compare (tag a) (tag b)
  end.

Definition shape_eqb (a b : shape) : bool := is_eq (cmp a b).

(* ---------- value.rs:78-170 ---------- *)
Definition is_optional (s : shape) : bool :=
  match s with
  | SNull => true
  | SBool o | SNumber o | SString o => o
  | SArray _ o | SObject _ o | SOneOf _ o | STuple _ o => o
  end.

Definition set_flag (f : bool) (s : shape) : shape :=
  match s with
  | SNull => SNull
  | SBool _ => SBool f
  | SNumber _ => SNumber f
  | SString _ => SString f
  | SArray t _ => SArray t f
  | SObject c _ => SObject c f
  | SOneOf vs _ => SOneOf vs f
  | STuple es _ => STuple es f
  end.

Definition as_optional : shape -> shape := set_flag true.        (* also to_optional_mut *)
Definition as_non_optional : shape -> shape := set_flag false.

Definition is_null (s : shape) : bool := match s with SNull => true | _ => false end.
Definition is_object (s : shape) : bool := match s with SObject _ _ => true | _ => false end.
Definition is_oneof (s : shape) : bool := match s with SOneOf _ _ => true | _ => false end.

(* ---------- BTreeSet<Value> / BTreeMap<String, Value> instances ---------- *)
Definition sset_insert := set_insert cmp.
Definition sset_mem := set_mem cmp.
Definition sset_union := set_union cmp.
Definition sset_of_list := set_of_list cmp.
Definition sset_subset := set_subset cmp.

(* ---------- invariant given by the Rust container types ---------- *)
Fixpoint wf (s : shape) : bool :=
  match s with
  | SNull | SBool _ | SNumber _ | SString _ => true
  | SArray t _ => wf t
  | SObject c _ => keys_sorted c && forallb (fun p => wf (snd p)) c
  | SOneOf vs _ => sorted cmp vs && forallb wf vs
  | STuple es _ => forallb wf es
  end.

(* size = number of constructor nodes (used by the cost model and as a measure in proofs) *)
Fixpoint size (s : shape) : nat :=
  match s with
  | SNull | SBool _ | SNumber _ | SString _ => 1
  | SArray t _ => S (size t)
  | SObject c _ => S (fold_right (fun p n => size (snd p) + n) 0 c)
  | SOneOf vs _ => S (fold_right (fun v n => size v + n) 0 vs)
  | STuple es _ => S (fold_right (fun v n => size v + n) 0 es)
  end.

Fixpoint oneof_free (s : shape) : bool :=
  match s with
  | SNull | SBool _ | SNumber _ | SString _ => true
  | SArray t _ => oneof_free t
  | SObject c _ => forallb (fun p => oneof_free (snd p)) c
  | SOneOf _ _ => false
  | STuple es _ => forallb oneof_free es
  end.
