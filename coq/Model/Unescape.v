(* Unescape.v — the meaning of a JSON string body as a member name: what
   serde_json::from_str::<String> makes of the characters between the quotes.  Used by the walk
   (shape/mod.rs parse_member after fix F11: names are compared unescaped, a name that does not
   decode keeps its spelling) and by the reference definitions of Model/JsonRef.v (two member
   names are the same name iff they decode to the same string).  Validated against serde_json
   itself by the C06 oracle (text path vs value path) on escaped names.  No proofs here. *)
From Coq Require Import List Bool NArith.
Import ListNotations.
From JS Require Import Model.Base Model.Lexer.

(* ---------- member names: serde_json::from_str::<String>(quoted slice), mod.rs parse_member ----------
   [decode_key] is serde_json's string parser on the characters between the quotes: the eight
   two-character escapes, \uXXXX (either hex case) incl. surrogate pairs; it FAILS on an unknown
   escape, a truncated or non-hex \u, a lone or mis-paired surrogate and on a raw control
   character (< U+0020) — then the caller keeps the spelling. *)
Definition hex_val (c : char) : option N :=
  if N.leb 48 c && N.leb c 57 then Some (c - 48)%N
  else if N.leb 65 c && N.leb c 70 then Some (c - 55)%N
  else if N.leb 97 c && N.leb c 102 then Some (c - 87)%N
  else None.

Definition hex4 (cs : list char) : option (N * list char) :=
  match cs with
  | a :: b :: c :: d :: r =>
      match hex_val a, hex_val b, hex_val c, hex_val d with
      | Some x, Some y, Some z, Some w => Some ((((x * 16 + y) * 16 + z) * 16 + w)%N, r)
      | _, _, _, _ => None
      end
  | _ => None
  end.

Definition simple_escape (e : char) : option char :=
  if N.eqb e 34 then Some 34%N
  else if N.eqb e 92 then Some 92%N
  else if N.eqb e 47 then Some 47%N
  else if N.eqb e 98 then Some 8%N
  else if N.eqb e 102 then Some 12%N
  else if N.eqb e 110 then Some 10%N
  else if N.eqb e 114 then Some 13%N
  else if N.eqb e 116 then Some 9%N
  else None.

Fixpoint decode_key_f (fuel : nat) (cs : list char) : option (list char) :=
  match fuel with
  | O => None
  | S f =>
      match cs with
      | [] => Some []
      | c :: r =>
          if N.eqb c 92 then                                    (* backslash *)
            match r with
            | [] => None
            | e :: r0 =>
                if N.eqb e 117 then                              (* \uXXXX *)
                  match hex4 r0 with
                  | None => None
                  | Some (n1, r1) =>
                      if N.leb 56320 n1 && N.leb n1 57343 then None            (* lone low surrogate *)
                      else if N.leb 55296 n1 && N.leb n1 56319 then             (* high: needs \uDC00..DFFF *)
                        match r1 with
                        | b :: u :: r2 =>
                            if N.eqb b 92 && N.eqb u 117 then
                              match hex4 r2 with
                              | Some (n2, r3) =>
                                  if N.leb 56320 n2 && N.leb n2 57343
                                  then option_map (cons (65536 + (n1 - 55296) * 1024 + (n2 - 56320))%N)
                                                  (decode_key_f f r3)
                                  else None
                              | None => None
                              end
                            else None
                        | _ => None
                        end
                      else option_map (cons n1) (decode_key_f f r1)
                  end
                else match simple_escape e with
                     | Some x => option_map (cons x) (decode_key_f f r0)
                     | None => None
                     end
            end
          else if N.ltb c 32 then None
          else option_map (cons c) (decode_key_f f r)
      end
  end.

Definition decode_key (cs : list char) : option (list char) := decode_key_f (S (length cs)) cs.

Definition name_chars (raw : list char) : list char :=
  match decode_key raw with Some k => k | None => raw end.

