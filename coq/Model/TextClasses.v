(* TextClasses.v — decidable classes of texts used both as hypotheses / witnesses of the
   C04 theorems and, extracted, as the run-time test that classifies a failing input as a
   KNOWN-FINDING (so the carve-out in Coq and the suppression at run time cannot drift).
   No proofs in this file. *)
From Coq Require Import List Bool NArith.
Import ListNotations.
From JS Require Import Model.Base Model.Lexer Model.Parser Model.Walk Model.TextApi Model.JsonRef.

(* number of diagnostics lexer + parser report for a text *)
Definition ndiags (cf : cfg) (src : list char) : nat :=
  length (pr_diags (snd (parse_text cf src))).

(* F2: the text is accepted although a diagnostic was reported (lib.rs drops the buffer) *)
Definition diag_dropped (src : list char) : bool :=
  accepts cfg_now src && negb (Nat.eqb (ndiags cfg_now src) 0).

(* F3: the text contains a CR not followed by LF and is rejected *)
Definition cr_rejected (src : list char) : bool :=
  has_bare_cr src && negb (accepts cfg_now src).
