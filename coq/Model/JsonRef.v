(* JsonRef.v — REFERENCE definitions for C04/C07, written from RFC 8259 sections 2-7 and
   independent of the lexer / parser / walk models:
   - the grammar as inductive relations ([ws], [number_lit], [string_lit], [value], [json_text])
     relating a text (list of Unicode scalar values) to the [json] tree of Model/Sem.v;
   - a deliberately naive executable recogniser [ref_json] (characters only: no tokens, no
     recovery), plus [jdepth] and the duplicate-consistency predicate [dup_consistent];
   - [jrender]: a document with per-token rendering choices back to text (C07).
   Member names are the RAW characters between the quotes (UTF-8 encoded), escapes included:
   this is how the text path of the library names members (F11 / C06 is about the decoded
   name).  No proofs in this file. *)
From Coq Require Import List Bool NArith.
Import ListNotations.
From JS Require Import Model.Base Model.Shape Model.Sem Model.Infer Model.Lexer Model.Unescape.
Local Open Scope N_scope.

(* ---------- RFC 8259 section 2: ws = *( %x20 / %x09 / %x0A / %x0D ) ---------- *)
Definition is_ws_char (c : char) : bool := (c =? 32) || (c =? 9) || (c =? 10) || (c =? 13).

Inductive ws : list char -> Prop :=
| ws_nil : ws []
| ws_cons : forall c r, is_ws_char c = true -> ws r -> ws (c :: r).

(* ---------- section 6: number = [ minus ] int [ frac ] [ exp ] ---------- *)
Definition rdigit (c : char) : bool := (48 <=? c) && (c <=? 57).

Inductive digits1 : list char -> Prop :=       (* 1*DIGIT *)
| digits1_one : forall c, rdigit c = true -> digits1 [c]
| digits1_cons : forall c r, rdigit c = true -> digits1 r -> digits1 (c :: r).

Inductive int_lit : list char -> Prop :=       (* zero / ( digit1-9 *DIGIT ) *)
| int_zero : int_lit [48]
| int_one : forall c, rdigit c = true -> c <> 48 -> int_lit [c]
| int_more : forall c r, rdigit c = true -> c <> 48 -> digits1 r -> int_lit (c :: r).

Inductive frac_lit : list char -> Prop :=      (* [ decimal-point 1*DIGIT ] *)
| frac_none : frac_lit []
| frac_some : forall r, digits1 r -> frac_lit (46 :: r).

Inductive exp_lit : list char -> Prop :=       (* [ e [ minus / plus ] 1*DIGIT ] *)
| exp_none : exp_lit []
| exp_plain : forall e r, e = 101 \/ e = 69 -> digits1 r -> exp_lit (e :: r)
| exp_signed : forall e s r, e = 101 \/ e = 69 -> s = 43 \/ s = 45 -> digits1 r -> exp_lit (e :: s :: r).

Inductive number_lit : list char -> Prop :=
| number_pos : forall i f e, int_lit i -> frac_lit f -> exp_lit e -> number_lit (i ++ f ++ e)
| number_neg : forall i f e, int_lit i -> frac_lit f -> exp_lit e -> number_lit (45 :: i ++ f ++ e).

(* ---------- section 7: string = quotation-mark *char quotation-mark ---------- *)
Definition rhex (c : char) : bool :=
  rdigit c || ((65 <=? c) && (c <=? 70)) || ((97 <=? c) && (c <=? 102)).
Definition unescaped (c : char) : bool :=        (* %x20-21 / %x23-5B / %x5D-10FFFF *)
  (32 <=? c) && negb (c =? 34) && negb (c =? 92) && (c <=? 1114111).
Definition escape_letter (c : char) : bool :=    (* quote backslash / b f n r t *)
  (c =? 34) || (c =? 92) || (c =? 47) || (c =? 98) || (c =? 102) || (c =? 110) || (c =? 114)
  || (c =? 116).

Inductive str_chars : list char -> Prop :=       (* *char *)
| sc_nil : str_chars []
| sc_plain : forall c r, unescaped c = true -> str_chars r -> str_chars (c :: r)
| sc_escape : forall c r, escape_letter c = true -> str_chars r -> str_chars (92 :: c :: r)
| sc_unicode : forall a b c d r, rhex a = true -> rhex b = true -> rhex c = true -> rhex d = true ->
    str_chars r -> str_chars (92 :: 117 :: a :: b :: c :: d :: r).

(* [string_lit s body]: s is the whole lexeme, body the raw characters between the quotes *)
Inductive string_lit : list char -> list char -> Prop :=
| string_intro : forall body, str_chars body -> string_lit (34 :: body ++ [34]) body.

(* the member name a string body denotes: escapes decoded (Model/Unescape.v) *)
Definition raw_key (body : list char) : key := utf8_encode (name_chars body).

(* ---------- sections 3-5: values, arrays, objects ----------
   begin-array = ws [ ws, value-separator = ws , ws, name-separator = ws : ws, ... *)
Inductive value : list char -> json -> Prop :=
| v_null : value [110; 117; 108; 108] JNull
| v_true : value [116; 114; 117; 101] JBool
| v_false : value [102; 97; 108; 115; 101] JBool
| v_number : forall s, number_lit s -> value s JNum
| v_string : forall s body, string_lit s body -> value s JStr
| v_array_empty : forall w, ws w -> value (91 :: w ++ [93]) (JArr [])
| v_array : forall s l, elements s l -> value (91 :: s ++ [93]) (JArr l)
| v_object_empty : forall w, ws w -> value (123 :: w ++ [125]) (JObj [])
| v_object : forall s m, members s m -> value (123 :: s ++ [125]) (JObj m)
with elements : list char -> list json -> Prop :=      (* value *( value-separator value ), non-empty *)
| el_one : forall w1 v d w2, ws w1 -> value v d -> ws w2 -> elements (w1 ++ v ++ w2) [d]
| el_cons : forall w1 v d w2 s l, ws w1 -> value v d -> ws w2 -> elements s l ->
    elements (w1 ++ v ++ w2 ++ 44 :: s) (d :: l)
with members : list char -> list (key * json) -> Prop :=
| mb_one : forall w1 k body w2 w3 v d w4, ws w1 -> string_lit k body -> ws w2 -> ws w3 -> value v d -> ws w4 ->
    members (w1 ++ k ++ w2 ++ 58 :: w3 ++ v ++ w4) [(raw_key body, d)]
| mb_cons : forall w1 k body w2 w3 v d w4 s m, ws w1 -> string_lit k body -> ws w2 -> ws w3 -> value v d -> ws w4 ->
    members s m -> members (w1 ++ k ++ w2 ++ 58 :: w3 ++ v ++ w4 ++ 44 :: s) ((raw_key body, d) :: m).

(* JSON-text = ws value ws *)
Inductive json_text : list char -> json -> Prop :=
| jt_intro : forall w1 v d w2, ws w1 -> value v d -> ws w2 -> json_text (w1 ++ v ++ w2) d.

(* ---------- nesting jdepth and duplicate consistency ---------- *)
Fixpoint jdepth (d : json) : nat :=
  match d with
  | JArr l => S (fold_right (fun e n => Nat.max (jdepth e) n) O l)
  | JObj m => S (fold_right (fun kv n => Nat.max (jdepth (snd kv)) n) O m)
  | _ => O
  end.

Definition shape_opt_eqb (a b : outcome ierr shape) : bool :=
  match a, b with
  | Ok x, Ok y => shape_eqb x y
  | _, _ => false
  end.

(* every two members of one object that carry the same name have values of the same
   inferred shape, recursively *)
Fixpoint dup_consistent (d : json) : bool :=
  match d with
  | JArr l => forallb dup_consistent l
  | JObj m =>
      (fix go (m : list (key * json)) : bool :=
         match m with
         | [] => true
         | (k, v) :: r =>
             dup_consistent v
             && forallb (fun kv => negb (key_eqb k (fst kv))
                                   || shape_opt_eqb (infer_text v) (infer_text (snd kv))) r
             && go r
         end) m
  | _ => true
  end.

(* ---------- the naive recogniser ---------- *)
Fixpoint skip_ws (cs : list char) : list char :=
  match cs with
  | c :: r => if is_ws_char c then skip_ws r else cs
  | [] => []
  end.

Fixpoint take_digits (cs : list char) : list char * list char :=
  match cs with
  | c :: r => if rdigit c then let '(d, r') := take_digits r in (c :: d, r') else ([], cs)
  | [] => ([], [])
  end.

(* a number at the head of cs: the rest after it, or None *)
Definition ref_number (cs : list char) : option (list char) :=
  let cs1 := match cs with c :: r => if c =? 45 then r else cs | [] => cs end in
  match cs1 with
  | [] => None
  | c :: r =>
      if rdigit c then
        let after_int := if c =? 48 then r else snd (take_digits r) in
        let after_frac :=
          match after_int with
          | p :: r1 => if p =? 46 then
                         match take_digits r1 with
                         | ([], _) => None
                         | (_, r2) => Some r2
                         end
                       else Some after_int
          | [] => Some after_int
          end in
        match after_frac with
        | None => None
        | Some af =>
            match af with
            | e :: r1 =>
                if (e =? 101) || (e =? 69) then
                  let r2 := match r1 with s :: r3 => if (s =? 43) || (s =? 45) then r3 else r1 | [] => r1 end in
                  match take_digits r2 with
                  | ([], _) => None
                  | (_, r4) => Some r4
                  end
                else Some af
            | [] => Some af
            end
        end
      else None
  end.

(* the characters after an opening quote: (raw body, rest after the closing quote) *)
Fixpoint ref_string (cs : list char) : option (list char * list char) :=
  match cs with
  | [] => None
  | c :: r =>
      if c =? 34 then Some ([], r)
      else if c =? 92 then
        match r with
        | e :: r1 =>
            if escape_letter e then
              match ref_string r1 with Some (b, x) => Some (c :: e :: b, x) | None => None end
            else if e =? 117 then
              match r1 with
              | h1 :: h2 :: h3 :: h4 :: r2 =>
                  if rhex h1 && rhex h2 && rhex h3 && rhex h4 then
                    match ref_string r2 with
                    | Some (b, x) => Some (c :: e :: h1 :: h2 :: h3 :: h4 :: b, x)
                    | None => None
                    end
                  else None
              | _ => None
              end
            else None
        | [] => None
        end
      else if unescaped c then
        match ref_string r with Some (b, x) => Some (c :: b, x) | None => None end
      else None
  end.

Fixpoint strip_prefix (p cs : list char) : option (list char) :=
  match p with
  | [] => Some cs
  | x :: p' => match cs with
               | c :: r => if c =? x then strip_prefix p' r else None
               | [] => None
               end
  end.

(* a value at the head of cs (no leading whitespace): (tree, rest) *)
Fixpoint ref_value (fuel : nat) (cs : list char) : option (json * list char) :=
  match fuel with
  | O => None
  | S f =>
      match cs with
      | [] => None
      | c :: r =>
          if c =? 110 then option_map (fun x => (JNull, x)) (strip_prefix [117; 108; 108] r)
          else if c =? 116 then option_map (fun x => (JBool, x)) (strip_prefix [114; 117; 101] r)
          else if c =? 102 then option_map (fun x => (JBool, x)) (strip_prefix [97; 108; 115; 101] r)
          else if c =? 34 then
            match ref_string r with Some (_, x) => Some (JStr, x) | None => None end
          else if c =? 91 then
            match skip_ws r with
            | c1 :: r1 => if c1 =? 93 then Some (JArr [], r1)
                          else option_map (fun p => (JArr (fst p), snd p)) (ref_elements f (c1 :: r1))
            | [] => None
            end
          else if c =? 123 then
            match skip_ws r with
            | c1 :: r1 => if c1 =? 125 then Some (JObj [], r1)
                          else option_map (fun p => (JObj (fst p), snd p)) (ref_members f (c1 :: r1))
            | [] => None
            end
          else option_map (fun x => (JNum, x)) (ref_number cs)
      end
  end
(* value ws ( "," ws elements | "]" ) *)
with ref_elements (fuel : nat) (cs : list char) : option (list json * list char) :=
  match fuel with
  | O => None
  | S f =>
      match ref_value f cs with
      | None => None
      | Some (d, r) =>
          match skip_ws r with
          | c :: r1 =>
              if c =? 93 then Some ([d], r1)
              else if c =? 44 then
                match ref_elements f (skip_ws r1) with
                | Some (l, x) => Some (d :: l, x)
                | None => None
                end
              else None
          | [] => None
          end
      end
  end
(* string ws ":" ws value ws ( "," ws members | "}" ) *)
with ref_members (fuel : nat) (cs : list char) : option (list (key * json) * list char) :=
  match fuel with
  | O => None
  | S f =>
      match cs with
      | q :: r0 =>
          if q =? 34 then
            match ref_string r0 with
            | None => None
            | Some (body, r) =>
                match skip_ws r with
                | c :: r1 =>
                    if c =? 58 then
                      match ref_value f (skip_ws r1) with
                      | None => None
                      | Some (d, r2) =>
                          match skip_ws r2 with
                          | c2 :: r3 =>
                              if c2 =? 125 then Some ([(raw_key body, d)], r3)
                              else if c2 =? 44 then
                                match ref_members f (skip_ws r3) with
                                | Some (m, x) => Some ((raw_key body, d) :: m, x)
                                | None => None
                                end
                              else None
                          | [] => None
                          end
                      end
                    else None
                | [] => None
                end
            end
          else None
      | [] => None
      end
  end.

Definition ref_json (cs : list char) : option json :=
  match ref_value (S (2 * length cs)) (skip_ws cs) with
  | Some (d, r) => match skip_ws r with [] => Some d | _ => None end
  | None => None
  end.

(* what C04 says the library must accept *)
Definition ref_accepts (cs : list char) : bool :=
  match ref_json cs with
  | Some d => Nat.leb (jdepth d) 256 && dup_consistent d
  | None => false
  end.

(* a CR that is not followed by LF (F3's class: legal whitespace the lexer rejects) *)
Fixpoint has_bare_cr (cs : list char) : bool :=
  match cs with
  | c :: r => ((c =? 13) && match r with d :: _ => negb (d =? 10) | [] => true end) || has_bare_cr r
  | [] => false
  end.

(* ---------- rendering (C07): one choice per token, drawn from a list of naturals ---------- *)
Definition ws_table : list (list char) :=
  [[]; [32]; [9]; [10]; [13; 10]; [13]; [32; 32]; [10; 9]; [32; 13; 10; 32]].
Definition num_table : list (list char) :=
  [[49]; [48]; [45; 48]; [45; 49; 50]; [49; 46; 53]; [49; 101; 53]; [49; 69; 43; 53]; [48; 46; 48; 101; 45; 49];
   [45; 57; 46; 50; 53; 69; 45; 51]].
Definition str_table : list (list char) :=      (* bodies *)
  [[115]; []; [97; 32; 98]; [92; 110]; [92; 34]; [92; 92]; [92; 117; 48; 48; 101; 57]; [233]; [128512];
   [92; 117; 68; 56; 51; 68; 92; 117; 68; 69; 48; 48]; [92; 47; 92; 98; 92; 102; 92; 114; 92; 116]].
Definition bool_table : list (list char) := [[116; 114; 117; 101]; [102; 97; 108; 115; 101]].

Definition pick {A} (tbl : list A) (dflt : A) (n : nat) : A := nth (Nat.modulo n (length tbl)) tbl dflt.

(* choices are consumed left to right; an exhausted list means choice 0 *)
Definition next_choice (ch : list nat) : nat * list nat :=
  match ch with n :: r => (n, r) | [] => (O, []) end.

Definition r_ws (ch : list nat) : list char * list nat :=
  let '(n, ch) := next_choice ch in (pick ws_table [] n, ch).

(* UTF-8 bytes of a raw member name back to characters (names come from texts, so the
   bytes are well-formed; anything else is passed through bytewise) *)
Fixpoint utf8_decode (fuel : nat) (b : list N) : list char :=
  match fuel with
  | O => []
  | S f =>
      match b with
      | [] => []
      | x :: r =>
          if x <? 128 then x :: utf8_decode f r
          else if x <? 224 then
            match r with
            | y :: r1 => ((x - 192) * 64 + (y - 128)) :: utf8_decode f r1
            | _ => x :: utf8_decode f r
            end
          else if x <? 240 then
            match r with
            | y :: z :: r1 => ((x - 224) * 4096 + (y - 128) * 64 + (z - 128)) :: utf8_decode f r1
            | _ => x :: utf8_decode f r
            end
          else
            match r with
            | y :: z :: w :: r1 =>
                ((x - 240) * 262144 + (y - 128) * 4096 + (z - 128) * 64 + (w - 128)) :: utf8_decode f r1
            | _ => x :: utf8_decode f r
            end
      end
  end.

Definition key_chars (k : key) : list char := utf8_decode (length k) k.

Fixpoint jrender (ch : list nat) (d : json) {struct d} : list char * list nat :=
  match d with
  | JNull => ([110; 117; 108; 108], ch)
  | JBool => let '(n, ch) := next_choice ch in (pick bool_table [] n, ch)
  | JNum => let '(n, ch) := next_choice ch in (pick num_table [] n, ch)
  | JStr => let '(n, ch) := next_choice ch in (34 :: pick str_table [] n ++ [34], ch)
  | JArr l =>
      let '(w0, ch) := r_ws ch in
      let '(body, ch) :=
        (fix go (l : list json) (first : bool) (ch : list nat) : list char * list nat :=
           match l with
           | [] => ([], ch)
           | e :: r =>
               let '(w1, ch) := r_ws ch in
               let '(t, ch) := jrender ch e in
               let '(w2, ch) := r_ws ch in
               let '(rest, ch) := go r false ch in
               ((if first then [] else [44]) ++ w1 ++ t ++ w2 ++ rest, ch)
           end) l true ch in
      (91 :: w0 ++ body ++ [93], ch)
  | JObj m =>
      let '(w0, ch) := r_ws ch in
      let '(body, ch) :=
        (fix go (m : list (key * json)) (first : bool) (ch : list nat) : list char * list nat :=
           match m with
           | [] => ([], ch)
           | (k, v) :: r =>
               let '(w1, ch) := r_ws ch in
               let '(w2, ch) := r_ws ch in
               let '(w3, ch) := r_ws ch in
               let '(t, ch) := jrender ch v in
               let '(w4, ch) := r_ws ch in
               let '(rest, ch) := go r false ch in
               ((if first then [] else [44]) ++ w1 ++ 34 :: key_chars k ++ 34 :: w2 ++ 58 :: w3 ++ t ++ w4 ++ rest, ch)
           end) m true ch in
      (123 :: w0 ++ body ++ [125], ch)
  end.

Definition render_text (ch : list nat) (d : json) : list char :=
  let '(w1, ch) := r_ws ch in
  let '(t, ch) := jrender ch d in
  let '(w2, _) := r_ws ch in
  w1 ++ t ++ w2.
