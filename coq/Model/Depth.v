(* Depth.v — instrumented measures of RECURSION DEPTH (C05: "no stack overflow").
   The fuel of Model/Parser.v and Model/Walk.v bounds the NUMBER OF STEPS; what fills the
   Rust stack is the NESTING of calls.  This file adds, next to the model functions, twins
   that compute the same result together with the maximal number of simultaneously active
   frames of the recursive Rust functions:

   - parser (generated.rs): rule_file, rule_value, rule_object, rule_member, rule_array,
     rule_literal, rule_boolean.  The two `loop`s inside rule_object / rule_array are loops in
     the Rust code, not calls: [object_loop_d] / [array_loop_d] recurse on fuel but add NO frame.
   - CST walk (shape/mod.rs): parse_cst, parse_rule, parse_member, parse_token.
   - value path (serde.rs): From<&serde_json::Value>.

   Not counted: the non-recursive helpers called from those frames (expect!/advance/error/
   advance_with_error, Cst::{open,close,advance,children,span,get}, has_errors, the slices) —
   each adds a constant number of frames on top of the deepest counted frame and never calls
   back into a counted function.
   A twin projects to the function it instruments (Proofs/DepthBound.v: [rule_value_d_fst],
   [parse_rule_d_fst], [infer_value_d_fst]); the bounds are proved there.
   No proofs in this file. *)
From Coq Require Import List Bool NArith.
Import ListNotations.
From JS Require Import Model.Base Model.Shape Model.Sem Model.Infer Model.Lexer Model.Unescape
  Model.Parser Model.Walk Model.TextApi.

(* ---------- bracket counts of a token list (what tokenize's counters see) ---------- *)
Definition is_open (t : tok) : bool := match t with TLBrace | TLBrak => true | _ => false end.
Definition is_close (t : tok) : bool := match t with TRBrace | TRBrak => true | _ => false end.

Fixpoint opens (l : list (tok * span)) : nat :=
  match l with
  | [] => 0
  | (t, _) :: r => (if is_open t then 1 else 0) + opens r
  end.
Fixpoint closes (l : list (tok * span)) : nat :=
  match l with
  | [] => 0
  | (t, _) :: r => (if is_close t then 1 else 0) + closes r
  end.

(* every prefix has at most k more opening than closing brackets *)
Definition nested (k : nat) (toks : list (tok * span)) : Prop :=
  forall p q, toks = p ++ q -> opens p <= closes p + k.

(* the same as a computation, for tests: the largest excess of a prefix, the running
   excess being a signed quantity represented as (opens so far, closes so far) *)
Fixpoint max_excess (o c : nat) (l : list (tok * span)) : nat :=
  match l with
  | [] => o - c
  | (t, _) :: r =>
      Nat.max (o - c)
        (max_excess ((if is_open t then 1 else 0) + o) ((if is_close t then 1 else 0) + c) r)
  end.

(* ---------- the parser with its call depth ---------- *)
Definition pd : Type := option (pst * nat).     (* None = out of fuel, as in Parser.v *)

(* no counted call inside *)
Definition dleaf (s : pst) : pd := Some (s, 0).
(* the body of a counted function: one more frame than the deepest call inside *)
Definition dframe (x : pd) : pd :=
  match x with Some (s, d) => Some (s, S d) | None => None end.
(* two pieces of code run one after the other inside the same frame *)
Definition dthen (x : pd) (g : pst -> pd) : pd :=
  match x with
  | Some (s, d) => match g s with Some (s', d') => Some (s', Nat.max d d') | None => None end
  | None => None
  end.

(* rule_literal (one frame) calls rule_boolean (a second frame) on false / true *)
Definition literal_depth (s : pst) : nat :=
  match cur s with TFalse | TTrue => 2 | _ => 1 end.

Fixpoint rule_value_d (fuel : nat) (s : pst) : pd :=
  match fuel with
  | O => None
  | S f =>
      dframe
        (match cur s with
         | TLBrace => rule_object_d f s
         | TLBrak => rule_array_d f s
         | TFalse | TNull | TNumber | TString | TTrue => Some (rule_literal s, literal_depth s)
         | _ => dleaf (perror s)
         end)
  end
with rule_object_d (fuel : nat) (s : pst) : pd :=
  match fuel with
  | O => None
  | S f =>
      let '(m, s) := cst_open s in
      let s := expect TLBrace s in
      dframe
        (dthen
           (match cur s with
            | TString => dthen (rule_member_d f s) (object_loop_d f)
            | TRBrace => dleaf s
            | _ => dleaf (perror s)
            end)
           (fun s => dleaf (cst_close m RObject (expect TRBrace s))))
  end
with object_loop_d (fuel : nat) (s : pst) : pd :=          (* a `loop`: no frame *)
  match fuel with
  | O => None
  | S f =>
      match cur s with
      | TComma => dthen (rule_member_d f (expect TComma s)) (object_loop_d f)
      | TRBrace | TEOF | TRBrak => dleaf s
      | _ => object_loop_d f (advance_with_error s)
      end
  end
with rule_member_d (fuel : nat) (s : pst) : pd :=
  match fuel with
  | O => None
  | S f =>
      let '(m, s) := cst_open s in
      let s := expect TString s in
      let s := expect TColon s in
      dframe (dthen (rule_value_d f s) (fun s => dleaf (cst_close m RMember s)))
  end
with rule_array_d (fuel : nat) (s : pst) : pd :=
  match fuel with
  | O => None
  | S f =>
      let '(m, s) := cst_open s in
      let s := expect TLBrak s in
      dframe
        (dthen
           (match cur s with
            | TFalse | TLBrace | TLBrak | TNull | TNumber | TString | TTrue =>
                dthen (rule_value_d f s) (array_loop_d f)
            | TRBrak => dleaf s
            | _ => dleaf (perror s)
            end)
           (fun s => dleaf (cst_close m RArray (expect TRBrak s))))
  end
with array_loop_d (fuel : nat) (s : pst) : pd :=           (* a `loop`: no frame *)
  match fuel with
  | O => None
  | S f =>
      match cur s with
      | TComma => dthen (rule_value_d f (expect TComma s)) (array_loop_d f)
      | TRBrak | TEOF | TRBrace => dleaf s
      | _ => array_loop_d f (advance_with_error s)
      end
  end.

Definition rule_file_d (fuel : nat) (s : pst) : pd :=
  let '(m, s) := cst_open s in
  let s := init_skip s in
  dframe
    (dthen (rule_value_d fuel s) (fun s =>
       let s := match cur s with
                | TEOF => s
                | _ =>
                    let s := perror s in
                    let '(et, s) := cst_open s in
                    let s := drain (p_rest s) s in
                    cst_close et RError s
                end in
       dleaf (cst_close_root m RFile s))).

(* frames of rule_* simultaneously active while Parser::parse runs on these tokens;
   0 stands for "out of fuel", which cannot happen (Proofs/DepthBound.v: [parse_depth_run]) *)
Definition parse_depth (toks : list (tok * span)) (max_offset : N) : nat :=
  match rule_file_d (parse_fuel toks) (init_pst toks max_offset) with
  | Some (_, d) => d
  | None => 0
  end.

(* ---------- the CST walk with its call depth ---------- *)
Definition wd (A : Type) : Type := (tout A * nat)%type.

Definition wleaf {A} (x : tout A) : wd A := (x, 0).
Definition wframe {A} (x : wd A) : wd A := (fst x, S (snd x)).
(* `?`: the rest runs only when the first part succeeded *)
Definition wbind {A B} (x : wd A) (f : A -> wd B) : wd B :=
  match fst x with
  | Ok a => let r := f a in (fst r, Nat.max (snd x) (snd r))
  | Err e => (Err e, snd x)
  | Panic => (Panic, snd x)
  end.

Definition parse_token_d (c : cst) (i : nat) : wd shape := wframe (wleaf (parse_token c i)).

(* Model/Walk.v [parse_member], the recursive call [pr] carrying its depth *)
Definition parse_member_d (pr : nat -> wd shape) (c : cst) (src : list char) (i : nat)
  (content : list (key * shape)) : wd (list (key * shape)) :=
  wframe
    (wbind (wleaf (kids_of c i)) (fun kn =>
       match find_kid is_string_tok kn with
       | None => wleaf (Err EInvalidObjectKey)
       | Some k =>
           wbind (wleaf (cst_span c k)) (fun ksp =>
             match (if N.eqb (snd ksp) 0 then None
                    else slice_src src (fst ksp + 1, snd ksp - 1)%N) with
             | None => wleaf Panic
             | Some kchars =>
                 let key := utf8_encode (name_chars kchars) in
                 wbind (wleaf (has_errors c src i)) (fun _ =>
                   match find_kid is_value_rule kn with
                   | None => wleaf (Err EInvalidObjectValue)
                   | Some v =>
                       wbind (pr v) (fun s =>
                         wleaf (match map_get key content with
                                | Some (SOneOf vs _) =>
                                    if sset_mem s vs then Ok content
                                    else Err (EDupConflict s (SOneOf vs false))
                                | Some other =>
                                    if shape_eqb s other then Ok content
                                    else Err (EDupConflict s other)
                                | None => Ok (map_insert key s content)
                                end))
                   end)
             end)
       end)).

Fixpoint fold_members_d (pm : nat -> list (key * shape) -> wd (list (key * shape)))
  (ms : list nat) (content : list (key * shape)) : wd (list (key * shape)) :=
  match ms with
  | [] => wleaf (Ok content)
  | m :: r => wbind (pm m content) (fold_members_d pm r)
  end.

Fixpoint mapM_d {A B} (f : A -> wd B) (l : list A) : wd (list B) :=
  match l with
  | [] => wleaf (Ok [])
  | x :: r => wbind (f x) (fun s => wbind (mapM_d f r) (fun ss => wleaf (Ok (s :: ss))))
  end.

Fixpoint parse_rule_d (fuel : nat) (c : cst) (src : list char) (i : nat) : wd shape :=
  match fuel with
  | O => wleaf (Err EFuel)
  | S f =>
      wframe
        (wbind (wleaf (cst_get c i)) (fun n =>
           match n with
           | NRule RLiteral _ =>
               wbind (wleaf (has_errors c src i)) (fun _ =>
                 wbind (wleaf (children c i)) (fun ks =>
                   match ks with
                   | k :: _ => parse_token_d c k
                   | [] => wleaf (Err (EInvalidType None))
                   end))
           | NRule RBoolean _ => wleaf (Ok (SBool false))
           | NRule RArray _ =>
               wbind (wleaf (has_errors c src i)) (fun _ =>
                 wbind (wleaf (kids_of c i)) (fun kn =>
                   let subs := map fst (filter (fun x => negb (is_array_punct (snd x))) kn) in
                   wbind (mapM_d (parse_rule_d f c src) subs)
                         (fun es => wleaf (lift_infer (array_text es)))))
           | NRule RObject _ =>
               wbind (wleaf (has_errors c src i)) (fun _ =>
                 wbind (wleaf (kids_of c i)) (fun kn =>
                   let ms := map fst (filter (fun x => is_member_node (snd x)) kn) in
                   wbind (fold_members_d (parse_member_d (parse_rule_d f c src) c src) ms [])
                         (fun content => wleaf (Ok (SObject content false)))))
           | _ => wleaf (invalid_json c src i)
           end))
  end.

Definition parse_cst_d (c : cst) (src : list char) : wd shape :=
  wframe
    (wbind (wleaf (cst_get c 0)) (fun n0 =>
       match n0 with
       | NRule RFile _ =>
           wbind (wleaf (has_errors c src 0)) (fun _ =>
             wbind (wleaf (kids_of c 0)) (fun kn =>
               let nonws := filter (fun x => negb (is_ws_node (snd x))) kn in
               if Nat.ltb 1 (length nonws) then
                 wleaf (obind (first_err_child c src (map fst kn)) (fun e =>
                          match e with
                          | Some k => invalid_json c src k
                          | None => Err (ETooManyRootNodes (length kn))
                          end))
               else
                 match nonws with
                 | [] => wleaf (invalid_json c src 0)
                 | x :: _ => parse_rule_d (length (c_nodes c)) c src (fst x)
                 end))
       | _ => wleaf (invalid_json c src 0)
       end)).

(* frames of parse_cst / parse_rule / parse_member / parse_token simultaneously active *)
Definition walk_depth (c : cst) (src : list char) : nat := snd (parse_cst_d c src).

(* the whole text entry point: lexer (a loop, depth 0), parser, then the walk — one after
   the other, so the deepest point is the larger of the two *)
Definition from_str_depth (cf : cfg) (src : list char) : nat :=
  let '(lx, pr) := parse_text cf src in
  Nat.max (parse_depth (l_toks lx) (byte_len src)) (walk_depth (pr_cst pr) src).

(* ---------- the value path with its call depth ---------- *)
Definition vd (A : Type) : Type := (outcome ierr A * nat)%type.
Definition vleaf {A} (x : outcome ierr A) : vd A := (x, 0).
Definition vframe {A} (x : vd A) : vd A := (fst x, S (snd x)).
Definition vbind {A B} (x : vd A) (f : A -> vd B) : vd B :=
  match fst x with
  | Ok a => let r := f a in (fst r, Nat.max (snd x) (snd r))
  | Err e => (Err e, snd x)
  | Panic => (Panic, snd x)
  end.

(* Model/Infer.v [infer_value] = From<&serde_json::Value>: one frame per value entered *)
Fixpoint infer_value_d (d : json) : vd shape :=
  vframe
    (match d with
     | JNull => vleaf (Ok SNull)
     | JBool => vleaf (Ok (SBool false))
     | JNum => vleaf (Ok (SNumber false))
     | JStr => vleaf (Ok (SString false))
     | JArr l =>
         vbind ((fix go (l : list json) : vd (list shape) :=
                   match l with
                   | [] => vleaf (Ok [])
                   | x :: r => vbind (infer_value_d x) (fun s =>
                               vbind (go r) (fun ss => vleaf (Ok (s :: ss))))
                   end) l)
               (fun es => vleaf (array_value es))
     | JObj m =>
         (fix go (m : list (key * json)) (acc : list (key * shape)) : vd shape :=
            match m with
            | [] => vleaf (Ok (SObject acc false))
            | (k, v) :: r => vbind (infer_value_d v) (fun s => go r (map_insert k s acc))
            end) m []
     end).

Definition value_depth (d : json) : nat := snd (infer_value_d d).

(* ---------- nesting depth of a shape ---------- *)
(* merger and is_subset are structural recursions on their first argument (Model/Merger.v, Model/Subset.v:
   `{struct a}`), so the nesting of their calls is bounded by this depth; Proofs/ShapeDepth.v bounds it by the
   nesting depth of the document for every shape the text path infers *)
Fixpoint sdepth (s : shape) : nat :=
  match s with
  | SArray x _ => S (sdepth x)
  | SObject c _ => S (fold_right (fun kv n => Nat.max (sdepth (snd kv)) n) 0 c)
  | SOneOf vs _ => S (fold_right (fun v n => Nat.max (sdepth v) n) 0 vs)
  | STuple es _ => S (fold_right (fun v n => Nat.max (sdepth v) n) 0 es)
  | _ => 0
  end.

