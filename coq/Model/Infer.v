(* Infer.v — single-document inference at tree level.
   [infer_text]  : the CST walk of json_shape/src/shape/mod.rs:75-254 on a well-formed tree
                   (members in document order, duplicates allowed);
   [infer_value] : serde_json parsing into a key-sorted Map followed by
                   From<&serde_json::Value> (json_shape/src/serde.rs:18-108);
   both share the array classification, with the different branch order of the two
   sources.  Rust panic sites are explicit [Panic] outcomes.  No proofs in this file. *)
From Coq Require Import List Bool NArith.
Import ListNotations.
From JS Require Import Model.Base Model.Shape Model.Sem.

Inductive ierr : Type :=
| DupConflict (v other : shape).     (* Error::InvalidObjectValueType(value, existing) *)

(* `elements.windows(2).all(|w| w[0] == w[1])` *)
Fixpoint all_adjacent_eq (es : list shape) : bool :=
  match es with
  | [] => true
  | x :: r => match r with
              | [] => true
              | y :: _ => shape_eqb x y && all_adjacent_eq r
              end
  end.

(* phase 1 of the array-of-objects fold: keys of the first object that a later object
   lacks become optional (mod.rs:121-131 with a fresh key iterator per key, serde.rs:36-49) *)
Definition phase1_step (acc : list (key * shape)) (e : shape) : list (key * shape) :=
  match e with
  | SObject c _ => map (fun kv => if map_has (fst kv) c then kv
                                  else (fst kv, as_optional (snd kv))) acc
  | _ => acc
  end.

(* phase 2: `acc.entry(key).or_insert_with(|| value.as_optional())`, then
   `if let OneOf{variants,..} = old_value { variants.insert(value) }` (mod.rs:132-145) *)
Definition oneof_push (v : shape) (entry : shape) : shape :=
  match entry with
  | SOneOf vs o => SOneOf (sset_insert v vs) o
  | _ => entry
  end.

Definition phase2_member (acc : list (key * shape)) (kv : key * shape) : list (key * shape) :=
  match map_get (fst kv) acc with
  | Some old => match old with
                | SOneOf _ _ => map_insert (fst kv) (oneof_push (snd kv) old) acc
                | _ => acc
                end
  | None => map_insert (fst kv) (oneof_push (snd kv) (as_optional (snd kv))) acc
  end.

Definition phase2_step (acc : list (key * shape)) (e : shape) : list (key * shape) :=
  match e with
  | SObject c _ => fold_left phase2_member c acc
  | _ => acc
  end.

Definition objects_fold (first : list (key * shape)) (rest : list shape) : list (key * shape) :=
  fold_left phase2_step rest (fold_left phase1_step rest first).

Definition array_of_objects (es : list shape) : outcome ierr shape :=
  match es with
  | SObject c _ :: rest => Ok (SArray (SObject (objects_fold c rest) false) false)
  | _ => Panic             (* `return Err(Unknown)` / unreachable!: excluded by the guard *)
  end.

Definition first_or_panic (es : list shape) : outcome ierr shape :=
  match es with
  | e :: _ => Ok (SArray e false)
  | [] => Panic            (* elements.first().cloned().unwrap() / values[0] *)
  end.

Definition len_gt1 (es : list shape) : bool :=
  match es with _ :: _ :: _ => true | _ => false end.
Definition len_eq1 (es : list shape) : bool :=
  match es with [_] => true | _ => false end.
Definition nonempty (es : list shape) : bool :=
  match es with [] => false | _ => true end.

(* mod.rs:107-164 *)
Definition array_text (es : list shape) : outcome ierr shape :=
  if nonempty es && (len_eq1 es || all_adjacent_eq es) then first_or_panic es
  else if len_gt1 es && forallb is_object es then array_of_objects es
  else if len_gt1 es then Ok (STuple es false)
  else Ok (SArray SNull true).

(* serde.rs:25-96 : objects first, then the all-equal test *)
Definition array_value (es : list shape) : outcome ierr shape :=
  if len_gt1 es && forallb is_object es then array_of_objects es
  else if nonempty es && (len_eq1 es || all_adjacent_eq es) then first_or_panic es
  else if len_gt1 es then Ok (STuple es false)
  else Ok (SArray SNull true).

Fixpoint infer_text (d : json) : outcome ierr shape :=
  match d with
  | JNull => Ok SNull
  | JBool => Ok (SBool false)
  | JNum => Ok (SNumber false)
  | JStr => Ok (SString false)
  | JArr l =>
      obind ((fix go (l : list json) : outcome ierr (list shape) :=
                match l with
                | [] => Ok []
                | x :: r => obind (infer_text x) (fun s =>
                            obind (go r) (fun ss => Ok (s :: ss)))
                end) l)
            array_text
  | JObj m =>
      (fix go (m : list (key * json)) (acc : list (key * shape)) : outcome ierr shape :=
         match m with
         | [] => Ok (SObject acc false)
         | (k, v) :: r =>
             obind (infer_text v) (fun s =>
               match map_get k acc with
               | Some (SOneOf vs _) =>
                   if sset_mem s vs then go r acc
                   else Err (DupConflict s (SOneOf vs false))
               | Some other =>
                   if shape_eqb s other then go r acc
                   else Err (DupConflict s other)
               | None => go r (map_insert k s acc)
               end)
         end) m []
  end.

Fixpoint infer_value (d : json) : outcome ierr shape :=
  match d with
  | JNull => Ok SNull
  | JBool => Ok (SBool false)
  | JNum => Ok (SNumber false)
  | JStr => Ok (SString false)
  | JArr l =>
      obind ((fix go (l : list json) : outcome ierr (list shape) :=
                match l with
                | [] => Ok []
                | x :: r => obind (infer_value x) (fun s =>
                            obind (go r) (fun ss => Ok (s :: ss)))
                end) l)
            array_value
  | JObj m =>
      (* serde_json::Map = BTreeMap: a repeated name keeps the last value *)
      (fix go (m : list (key * json)) (acc : list (key * shape)) : outcome ierr shape :=
         match m with
         | [] => Ok (SObject acc false)
         | (k, v) :: r => obind (infer_value v) (fun s => go r (map_insert k s acc))
         end) m []
  end.

(* ---------- helpers shared by the API layer and by the statements ---------- *)
Fixpoint mapM_o {E A B} (f : A -> outcome E B) (l : list A) : outcome E (list B) :=
  match l with
  | [] => Ok []
  | x :: r => obind (f x) (fun s => obind (mapM_o f r) (fun ss => Ok (s :: ss)))
  end.

(* KF1: two object elements of one array carry the same key with different value shapes
   (the array-of-objects fold keeps the first one only).  This decidable predicate is the
   carve-out of the C01 theorem AND the run-time test for the known-finding class. *)
Definition key_conflict (es : list shape) : bool :=
  existsb (fun e =>
    match e with
    | SObject c _ =>
        existsb (fun e' =>
          match e' with
          | SObject c' _ =>
              existsb (fun kv => match map_get (fst kv) c' with
                                 | Some s' => negb (shape_eqb (snd kv) s')
                                 | None => false
                                 end) c
          | _ => false
          end) es
    | _ => false
    end) es.

Fixpoint conflict_free (d : json) : bool :=
  match d with
  | JArr l =>
      forallb conflict_free l &&
      match mapM_o infer_text l with
      | Ok es => negb (len_gt1 es && forallb is_object es && key_conflict es)
      | _ => true
      end
  | JObj m => forallb (fun kv => conflict_free (snd kv)) m
  | _ => true
  end.
