(* Gen.v — executable model of the build-time generator json_shape_build/src/lib.rs
   (compile_json, first_pass, create_subtype, create_object/enum/array/tuple,
   shape_representation, shape_name, include_json_shape!) and of the three external crates
   it leans on:
     checksum 0.2.1   Crc32 (reflected CRC-32, poly 0xEDB88320), printed with {:X} (no padding)
     convert_case 0.11.0  to_case(Case::Snake) / to_case(Case::Pascal), default 9 boundaries
     codegen 0.3.0    Scope::to_string for type aliases, named-field structs, tuple-variant enums
   DOMAIN RESTRICTION (stated, see NOTES-gen.md): member names are PRINTABLE ASCII (bytes
   0x20..0x7E).  Outside it convert_case works on grapheme clusters / Unicode case tables and
   codegen's Formatter splits on line breaks; neither is modelled.
   Texts are [list N] (bytes).  The model describes the code AS IT IS; the three places that a
   planned fix changes are single definitions marked SWITCH(F12), SWITCH(F13), SWITCH(F14), SWITCH(F15).
   No proofs in this file. *)
From Coq Require Import Ascii String.
From Coq Require Import List Bool NArith.
Import ListNotations.
From JS Require Import Model.Base Model.Shape Model.Sem.

Definition text := list N.
Definition txt (s : string) : text := map N_of_ascii (list_ascii_of_string s).
Arguments txt s%string.
(* literals are evaluated when a definition is checked, so that no Coq [string] reaches the
   extracted code (driver.ml uses OCaml's own string type) *)
Notation "'lit' s" := (ltac:(let x := eval vm_compute in (txt s%string) in exact x))
  (at level 0, s at level 0, only parsing).
Definition text_eqb : text -> text -> bool := key_eqb.
Definition nl : text := [10%N].

Fixpoint join (sep : text) (ws : list text) : text :=
  match ws with
  | [] => []
  | w :: r => match r with [] => w | _ => w ++ sep ++ join sep r end
  end.

Fixpoint mapM {A B : Type} (f : A -> option B) (l : list A) : option (list B) :=
  match l with
  | [] => Some []
  | x :: r => match f x with
              | Some y => match mapM f r with Some ys => Some (y :: ys) | None => None end
              | None => None
              end
  end.

Fixpoint nodupb (l : list text) : bool :=
  match l with
  | [] => true
  | x :: r => negb (existsb (text_eqb x) r) && nodupb r
  end.

(* ------------------------------------------------------------------ character classes *)
Local Open Scope N_scope.
Definition is_upper (c : N) : bool := (65 <=? c) && (c <=? 90).
Definition is_lower (c : N) : bool := (97 <=? c) && (c <=? 122).
Definition is_digit (c : N) : bool := (48 <=? c) && (c <=? 57).
Definition to_lower (c : N) : N := if is_upper c then c + 32 else c.
Definition to_upper (c : N) : N := if is_lower c then c - 32 else c.
Definition printable (c : N) : bool := (32 <=? c) && (c <=? 126).
Definition printable_text (s : text) : bool := forallb printable s.

(* ------------------------------------------------------------------ convert_case 0.11.0
   boundary.rs split(): for every position i, the first of the default boundaries
   [Underscore, Hyphen, Space, LowerUpper, LowerDigit, UpperDigit, DigitLower, DigitUpper,
   Acronym] that matches graphemes[i..] cuts a word; the three separators consume their
   character (start 0, len 1), the others cut after the first character (start 1, len 0).
   Empty words are kept (Pattern::RemoveEmpty is not in the default converter). *)
Definition is_sep (c : N) : bool := (c =? 95) || (c =? 45) || (c =? 32).

Definition boundary_after (c0 : N) (r : text) : bool :=
  match r with
  | [] => false
  | c1 :: r' =>
      (is_lower c0 && is_upper c1) || (is_lower c0 && is_digit c1) || (is_upper c0 && is_digit c1)
      || (is_digit c0 && is_lower c1) || (is_digit c0 && is_upper c1)
      || (is_upper c0 && is_upper c1 && match r' with c2 :: _ => is_lower c2 | [] => false end)
  end.

Fixpoint split_from (cur : text) (s : text) : list text :=
  match s with
  | [] => [rev cur]
  | c0 :: r =>
      if is_sep c0 then rev cur :: split_from [] r
      else if boundary_after c0 r then rev (c0 :: cur) :: split_from [] r
      else split_from (c0 :: cur) r
  end.

Definition split_words (s : text) : list text :=
  match s with [] => [] | _ => split_from [] s end.

Definition lower_word (w : text) : text := map to_lower w.
Definition capital_word (w : text) : text :=
  match w with [] => [] | c :: r => to_upper c :: map to_lower r end.

Definition to_snake (s : text) : text := join [95] (map lower_word (split_words s)).
Definition to_pascal (s : text) : text := concat (map capital_word (split_words s)).

(* ------------------------------------------------------------------ checksum 0.2.1 Crc32 *)
Definition crc_poly : N := 3988292384.        (* 0xEDB88320 *)
Definition crc_mask : N := 4294967295.        (* 0xFFFFFFFF *)
Definition crc_step (v : N) : N :=
  if N.odd v then N.lxor crc_poly (N.shiftr v 1) else N.shiftr v 1.
Definition crc_byte (v b : N) : N :=
  crc_step (crc_step (crc_step (crc_step (crc_step (crc_step (crc_step (crc_step (N.lxor v b)))))))).
Definition crc32 (bytes : text) : N := N.lxor (fold_left crc_byte bytes crc_mask) crc_mask.

Definition hex_digit (d : N) : N := if d <? 10 then 48 + d else 55 + d.
Fixpoint hex_go (fuel : nat) (n : N) : text :=
  match fuel with
  | O => []
  | S f => if n <? 16 then [hex_digit n] else hex_go f (N.shiftr n 4) ++ [hex_digit (N.land n 15)]
  end.
Definition hex_upper (n : N) : text := hex_go 8 n.          (* format!("{:X}", u32) *)

Fixpoint dec_go (fuel : nat) (n : N) : text :=
  match fuel with
  | O => []
  | S f => if n <? 10 then [48 + n] else dec_go f (n / 10) ++ [48 + n mod 10]
  end.
Definition dec_of_nat (k : nat) : text := dec_go (S k) (N.of_nat k).   (* format!("{len}") *)
Local Close Scope N_scope.

(* ------------------------------------------------------------------ type expressions *)
Inductive ty : Type :=
| TPath (name : text) (args : list ty)      (* f64, String, Option<..>, Vec<..>, Struct1Crc.. *)
| TTuple (es : list ty).                    (* (a, b)   and  ()  *)

Fixpoint render_ty (x : ty) : text :=
  match x with
  | TPath n args =>
      n ++ match args with
           | [] => []
           | _ => lit "<" ++ join (lit ", ") (map render_ty args) ++ lit ">"
           end
  | TTuple es => lit "(" ++ join (lit ", ") (map render_ty es) ++ lit ")"
  end.

Definition ty_unit : ty := TTuple [].
Definition ty_bool : ty := TPath (lit "bool") [].
Definition ty_f64 : ty := TPath (lit "f64") [].
Definition ty_string : ty := TPath (lit "String") [].
Definition ty_option (x : ty) : ty := TPath (lit "Option") [x].
Definition ty_vec (x : ty) : ty := TPath (lit "Vec") [x].
Definition opt_wrap (o : bool) (x : ty) : ty := if o then ty_option x else x.

(* lib.rs:290 — the wrapper of a nested optional array (was "Optional" before fix 171b495) *)
Definition opt_array_head : text := lit "Option".

(* ------------------------------------------------------------------ lib.rs:263-411 *)
Definition crc_name (prefix : text) (o : bool) (parts : list text) : text :=
  (if o then lit "Optional" else []) ++ prefix ++ dec_of_nat (length parts) ++ lit "Crc"
  ++ hex_upper (crc32 (to_pascal (concat parts))).
Definition struct_name := crc_name (lit "Struct").
Definition enum_name := crc_name (lit "Enum").
Definition tuple_name := crc_name (lit "Tuple").

Fixpoint shape_name (s : shape) : text :=
  match s with
  | SNull => lit "Null"
  | SBool o => if o then lit "OptionalBool" else lit "Bool"
  | SNumber o => if o then lit "OptionalNumber" else lit "Number"
  | SString o => if o then lit "OptionalStr" else lit "Str"
  | SArray x o => (if o then lit "OptionalArrayOf" else lit "ArrayOf") ++ shape_name x
  | SObject c o => struct_name o (map (fun kv => shape_name (snd kv)) c)
  | SOneOf vs o => enum_name o (map shape_name vs)
  | STuple es o => tuple_name o (map (fun e => render_ty (shape_repr e)) es)
  end
with shape_repr (s : shape) : ty :=
  match s with
  | SNull => ty_unit
  | SBool o => opt_wrap o ty_bool
  | SNumber o => opt_wrap o ty_f64
  | SString o => opt_wrap o ty_string
  | SArray x o => if o then TPath opt_array_head [ty_vec (shape_repr x)] else ty_vec (shape_repr x)
  | SObject c o => opt_wrap o (TPath (struct_name o (map (fun kv => shape_name (snd kv)) c)) [])
  | SOneOf vs o => opt_wrap o (TPath (enum_name o (map shape_name vs)) [])
  | STuple es o => opt_wrap o (TTuple (map shape_repr es))
  end.

Definition shape_representation (s : shape) : text := render_ty (shape_repr s).

(* ------------------------------------------------------------------ items, lib.rs:105-261 *)
Inductive item : Type :=
| Alias (name : text) (target : ty)
| Struct (name : text) (fields : list (text * ty))
| Enum (name : text) (variants : list (text * ty)).

Definition item_name (i : item) : text :=
  match i with Alias n _ | Struct n _ | Enum n _ => n end.

Definition create_object (name : text) (c : list (key * shape)) : item :=
  Struct name (map (fun kv => (to_snake (fst kv), shape_repr (snd kv))) c).
Definition create_enum (name : text) (vs : list shape) : item :=
  Enum name (map (fun v => (shape_name v, shape_repr v)) vs).
Definition create_array (name : text) (o : bool) (x : shape) : item :=
  Alias name (opt_wrap o (ty_vec (shape_repr x))).
Definition create_tuple (name : text) (o : bool) (es : list shape) : item :=
  Alias name (opt_wrap o (TTuple (map shape_repr es))).

(* SWITCH(F15): create_subtype emits a definition at every occurrence. *)
Fixpoint create_subtype (s : shape) : list item :=
  match s with
  | SArray x _ => create_subtype x
  | SObject c _ => create_object (shape_name s) c :: flat_map (fun kv => create_subtype (snd kv)) c
  | SOneOf vs _ => create_enum (shape_name s) vs :: flat_map create_subtype vs
  | STuple es _ => flat_map create_subtype es
  | _ => []
  end.

Definition first_pass (s : shape) : list item :=
  match s with
  | SNull => [Alias (lit "Void") ty_unit]
  | SBool o => [if o then Alias (lit "NullableBool") (ty_option ty_bool) else Alias (lit "Bool") ty_bool]
  | SNumber o => [if o then Alias (lit "NullableNumber") (ty_option ty_f64) else Alias (lit "Number") ty_f64]
  | SString o => [if o then Alias (lit "NullableStr") (ty_option ty_string) else Alias (lit "Str") ty_string]
  | SArray x o => create_array (shape_name s) o x :: create_subtype x
  | SObject c _ => create_object (shape_name s) c :: flat_map (fun kv => create_subtype (snd kv)) c
  | SOneOf vs _ => create_enum (shape_name s) vs :: flat_map create_subtype vs
  | STuple es o => create_tuple (shape_name s) o es :: flat_map create_subtype es
  end.

(* ------------------------------------------------------------------ codegen 0.3.0 Scope::to_string *)
Definition derive_line : text :=
  lit "#[derive(Debug, Clone, serde::Serialize, serde::Deserialize)]" ++ nl.

Definition render_field (f : text * ty) : text :=
  lit "    pub " ++ fst f ++ lit ": " ++ render_ty (snd f) ++ lit "," ++ nl.
Definition render_variant (v : text * ty) : text :=
  lit "    " ++ fst v ++ lit "(" ++ render_ty (snd v) ++ lit ")," ++ nl.

Definition render_item (i : item) : text :=
  match i with
  | Alias n x => lit "pub type " ++ n ++ lit " = " ++ render_ty x ++ lit ";" ++ nl
  | Struct n fs =>
      derive_line ++ lit "pub struct " ++ n ++
      match fs with
      | [] => lit ";" ++ nl                                        (* Fields::Empty *)
      | _ => lit " {" ++ nl ++ concat (map render_field fs) ++ lit "}" ++ nl
      end
  | Enum n vs => derive_line ++ lit "pub enum " ++ n ++ lit " {" ++ nl ++ concat (map render_variant vs) ++ lit "}" ++ nl
  end.

Fixpoint drop_last_nl (s : text) : text :=
  match s with
  | [] => []
  | c :: r => match r with
              | [] => if N.eqb c 10 then [] else [c]
              | _ => c :: drop_last_nl r
              end
  end.

Definition render (items : list item) : text := drop_last_nl (join nl (map render_item items)).

(* lib.rs:97-100, the header of the written file (an inner doc comment `//!` before fix 7d81851) *)
Definition gen_header : text :=
  lit "// Generated `JsonShape` file." ++ nl ++ lit "use serde;" ++ nl ++ nl.
Definition file_text (items : list item) : text := gen_header ++ render items.

Definition gen_text (s : shape) : text := render (first_pass s).       (* verif_hooks::render *)

(* ------------------------------------------------------------------ paths, lib.rs:47-56, 90-92
   Unix paths as bytes.  PathBuf::join: an absolute argument replaces the base; otherwise a
   separator is added unless the base is empty or already ends in one.
   with_extension: the last component's stem (up to its LAST dot; a leading dot alone does not
   count) is kept and ".gen.shape.rs" appended.  DOMAIN: the last segment of the joined path is
   a proper file name (non-empty, not "." or ".."); other inputs are outside the model. *)
Local Open Scope N_scope.
Definition ends_with_slash (p : text) : bool :=
  match rev p with c :: _ => c =? 47 | [] => false end.

Definition path_join (base name : text) : text :=
  match name with
  | c :: _ => if c =? 47 then name
              else match base with
                   | [] => name
                   | _ => if ends_with_slash base then base ++ name else base ++ [47] ++ name
                   end
  | [] => match base with
          | [] => []
          | _ => if ends_with_slash base then base else base ++ [47]
          end
  end.

(* (everything up to and including the last '/', the last segment) *)
Fixpoint split_last_seg (p : text) : text * text :=
  match p with
  | [] => ([], [])
  | c :: r => let (pre, seg) := split_last_seg r in
              match pre with
              | [] => if c =? 47 then ([c], seg) else ([], c :: seg)
              | _ => (c :: pre, seg)
              end
  end.

(* Some (before, after) the last '.' *)
Fixpoint split_last_dot (s : text) : option (text * text) :=
  match s with
  | [] => None
  | c :: r => match split_last_dot r with
              | Some (b, a) => Some (c :: b, a)
              | None => if c =? 46 then Some ([], r) else None
              end
  end.

Definition file_stem (seg : text) : text :=
  if text_eqb seg [46; 46] then seg
  else match split_last_dot seg with
       | Some (b, _) => match b with [] => seg | _ => b end
       | None => seg
       end.
Local Close Scope N_scope.

Definition gen_ext : text := lit "gen.shape.rs".

(* PathBuf::with_extension as used before fix 6d32756 *)
Definition with_gen_ext (seg : text) : text :=
  match split_last_dot seg with
  | Some (b, _) => if text_eqb b [46%N] then [46%N; 46%N]      (* "..x": Rust copies "..", which has no file name *)
                   else file_stem seg ++ lit "." ++ gen_ext
  | None => file_stem seg ++ lit "." ++ gen_ext
  end.
(* the path before fix 6d32756 (PathBuf::with_extension); kept for the record of finding F14 *)
Definition out_path_pre_f14 (dir name : text) : text :=
  let (pre, seg) := split_last_seg (path_join dir name) in
  pre ++ with_gen_ext seg.
(* lib.rs:92  target.join(format!("{collection_name}.gen.shape.rs")) *)
Definition out_path (dir name : text) : text := path_join dir (name ++ lit "." ++ gen_ext).

(* include_json_shape!: concat!(env!("OUT_DIR"), concat!("/", $package, ".gen.shape.rs")) *)
Definition macro_path (dir name : text) : text := dir ++ lit "/" ++ name ++ lit "." ++ gen_ext.

Definition no_byte (b : N) (s : text) : bool := forallb (fun c => negb (N.eqb c b)) s.
Definition plain_name (name : text) : bool :=          (* usable as a file name, and dot-free *)
  match name with [] => false | _ => no_byte 47 name && no_byte 46 name end.
Definition plain_dir (dir : text) : bool :=
  match dir with [] => false | _ => negb (ends_with_slash dir) end.

(* ------------------------------------------------------------------ compile_json, lib.rs:75-103
   A pure function of: the read result of every source path (None = read error), the
   inference function of the json_shape version the build crate links (an argument: the
   generator uses crates.io json_shape 0.5.1, not the workspace crate), OUT_DIR, the current
   directory, the collection name, and whether the final write succeeds.  Returns the result
   and the trace of effects in order.  Paths that are not UTF-8 are silently skipped by the
   code (filter_map to_str) and are outside the model. *)
Inductive effect : Type :=
| EPrint (line : text)
| ERead (path : text)
| EWrite (path : text) (content : text).

Inductive cerr : Type := CRead | CInfer | CWrite.

Fixpoint read_all (srcs : list (text * option text)) : option (list text) * list effect :=
  match srcs with
  | [] => (Some [], [])
  | (p, None) :: _ => (None, [ERead p])
  | (p, Some c) :: r => let (x, e) := read_all r in
                        (match x with Some cs => Some (c :: cs) | None => None end, ERead p :: e)
  end.

Definition is_write (e : effect) : bool := match e with EWrite _ _ => true | _ => false end.
Definition no_write (tr : list effect) : bool := forallb (fun e => negb (is_write e)) tr.

Definition compile_json_m {E : Type} (infer : list text -> outcome E shape)
    (cwd : text) (out_dir : option text) (name : text)
    (srcs : list (text * option text)) (write_ok : bool) : outcome cerr text * list effect :=
  let prints := map (fun s => EPrint (lit "cargo:rerun-if-changed=" ++ fst s)) srcs in
  match read_all srcs with
  | (None, eff) => (Err CRead, prints ++ eff)
  | (Some cs, eff) =>
      match infer cs with
      | Panic => (Panic, prints ++ eff)
      | Err _ => (Err CInfer, prints ++ eff)
      | Ok s =>
          let items := first_pass s in
          let dir := match out_dir with Some d => d | None => cwd end in
          let w := EWrite (out_path dir name) (file_text items) in
          (if write_ok then Ok (render items) else Err CWrite, prints ++ eff ++ [w])
      end
  end.

(* ------------------------------------------------------------------ well-formed module (C13)
   What rustc needs of the generated file when it is include!d in a module of a crate that
   depends on serde (derive): header includable; every defined name a legal identifier,
   defined once, not shadowing a standard type; field / variant names legal and distinct;
   every type expression built from standard types at their arity and defined names; tuples
   inside derived items at most 12 wide (std implements Debug up to arity 12). *)
Definition keywords : list text := Eval vm_compute in
  map txt ["as"; "break"; "const"; "continue"; "crate"; "else"; "enum"; "extern"; "false"; "fn";
         "for"; "if"; "impl"; "in"; "let"; "loop"; "match"; "mod"; "move"; "mut"; "pub"; "ref";
         "return"; "self"; "Self"; "static"; "struct"; "super"; "trait"; "true"; "type";
         "unsafe"; "use"; "where"; "while"; "async"; "await"; "dyn"; "abstract"; "become";
         "box"; "do"; "final"; "macro"; "override"; "priv"; "typeof"; "unsized"; "virtual";
         "yield"; "try"; "gen"]%string.
Definition is_keyword (s : text) : bool := existsb (text_eqb s) keywords.

Definition is_ident_start (c : N) : bool := is_lower c || is_upper c || N.eqb c 95.
Definition is_ident_char (c : N) : bool := is_ident_start c || is_digit c.
Definition legal_ident (s : text) : bool :=
  match s with
  | [] => false
  | c :: r => is_ident_start c && forallb is_ident_char r
              && negb (text_eqb s [95%N]) && negb (is_keyword s)
  end.

Definition builtin_arity (n : text) : option nat :=
  if text_eqb n (lit "f64") then Some 0
  else if text_eqb n (lit "String") then Some 0
  else if text_eqb n (lit "bool") then Some 0
  else if text_eqb n (lit "Option") then Some 1
  else if text_eqb n (lit "Vec") then Some 1
  else None.
Definition is_builtin (n : text) : bool :=
  match builtin_arity n with Some _ => true | None => false end.

Definition max_derive_tuple : nat := 12.

Fixpoint wf_ty (defs : list text) (derived : bool) (x : ty) : bool :=
  match x with
  | TPath n args =>
      match builtin_arity n with
      | Some k => Nat.eqb k (length args)
      | None => existsb (text_eqb n) defs && match args with [] => true | _ => false end
      end && forallb (wf_ty defs derived) args
  | TTuple es => (negb derived || Nat.leb (length es) max_derive_tuple) && forallb (wf_ty defs derived) es
  end.

Definition wf_members (defs : list text) (ms : list (text * ty)) : bool :=
  forallb (fun m => legal_ident (fst m)) ms && nodupb (map fst ms)
  && forallb (fun m => wf_ty defs true (snd m)) ms.

Definition wf_item (defs : list text) (i : item) : bool :=
  match i with
  | Alias _ x => wf_ty defs false x
  | Struct _ fs => wf_members defs fs
  | Enum _ vs => wf_members defs vs
  end.

Definition wf_items (items : list item) : bool :=
  let defs := map item_name items in
  nodupb defs && forallb (fun n => legal_ident n && negb (is_builtin n)) defs
  && forallb (wf_item defs) items.

(* a header is includable iff no line of it opens an inner doc comment or inner attribute *)
Fixpoint starts_with (p s : text) : bool :=
  match p, s with
  | [], _ => true
  | a :: p', b :: s' => N.eqb a b && starts_with p' s'
  | _ :: _, [] => false
  end.
Fixpoint lines_from (cur : text) (s : text) : list text :=
  match s with
  | [] => [rev cur]
  | c :: r => if N.eqb c 10 then rev cur :: lines_from [] r else lines_from (c :: cur) r
  end.
Definition header_ok (h : text) : bool :=
  forallb (fun l => negb (starts_with (lit "//!") l) && negb (starts_with (lit "/*!") l)
                    && negb (starts_with (lit "#!") l)) (lines_from [] h).

Definition wf_module (items : list item) : bool := header_ok gen_header && wf_items items.

(* ------------------------------------------------------------------ the carve-out of C13 *)
(* sub-shapes for which create_subtype emits a definition, in emission order *)
Fixpoint subdefs (s : shape) : list shape :=
  match s with
  | SArray x _ => subdefs x
  | SObject c _ => s :: flat_map (fun kv => subdefs (snd kv)) c
  | SOneOf vs _ => s :: flat_map subdefs vs
  | STuple es _ => flat_map subdefs es
  | _ => []
  end.

Definition root_subdefs (s : shape) : list shape :=
  match s with
  | SArray x _ => subdefs x
  | SObject c _ => flat_map (fun kv => subdefs (snd kv)) c
  | SOneOf vs _ => flat_map subdefs vs
  | STuple es _ => flat_map subdefs es
  | _ => []
  end.

Definition root_item_name (s : shape) : text :=
  match s with
  | SNull => lit "Void"
  | SBool o => if o then lit "NullableBool" else lit "Bool"
  | SNumber o => if o then lit "NullableNumber" else lit "Number"
  | SString o => if o then lit "NullableStr" else lit "Str"
  | _ => shape_name s
  end.

Definition def_names (s : shape) : list text := root_item_name s :: map shape_name (root_subdefs s).

(* every shape in type-expression position: no nested optional array unless its wrapper is a
   standard type (F13); tuples at most 12 wide; member names usable; variant names distinct *)
Definition opt_array_ok : bool :=
  match builtin_arity opt_array_head with Some 1 => true | _ => false end.

Definition keys_ok (c : list (key * shape)) : bool :=
  forallb (fun kv => legal_ident (to_snake (fst kv))) c && nodupb (map (fun kv => to_snake (fst kv)) c).

Fixpoint inner_ok (s : shape) : bool :=
  match s with
  | SArray x o => (negb o || opt_array_ok) && inner_ok x
  | SObject c _ => keys_ok c && forallb (fun kv => inner_ok (snd kv)) c
  | SOneOf vs _ => nodupb (map shape_name vs) && forallb inner_ok vs
  | STuple es _ => Nat.leb (length es) max_derive_tuple && forallb inner_ok es
  | _ => true
  end.

Definition root_ok (s : shape) : bool :=
  match s with
  | SArray x _ => inner_ok x          (* create_array spells Option correctly *)
  | _ => inner_ok s
  end.

Definition good_names (s : shape) : bool := nodupb (def_names s) && root_ok s.

(* ------------------------------------------------------------------ decode / erase (C14) *)
Fixpoint lookup (n : text) (items : list item) : option item :=
  match items with
  | [] => None
  | i :: r => if text_eqb n (item_name i) then Some i else lookup n r
  end.

Fixpoint decode_ty (fuel : nat) (items : list item) (x : ty) : option shape :=
  match fuel with
  | O => None
  | S f =>
      match x with
      | TTuple es =>
          match es with
          | [] => Some SNull                                  (* ()   is the unit type *)
          | [e] => decode_ty f items e                        (* (T)  is T             *)
          | _ => match mapM (decode_ty f items) es with
                 | Some l => Some (STuple l false)
                 | None => None
                 end
          end
      | TPath n args =>
          match args with
          | [] =>
              if text_eqb n (lit "f64") then Some (SNumber false)
              else if text_eqb n (lit "String") then Some (SString false)
              else if text_eqb n (lit "bool") then Some (SBool false)
              else match lookup n items with
                   | Some (Alias _ y) => decode_ty f items y
                   | Some (Struct _ fs) =>
                       match mapM (fun m => match decode_ty f items (snd m) with
                                            | Some v => Some (fst m, v) | None => None end) fs with
                       | Some l => Some (SObject l false)
                       | None => None
                       end
                   | Some (Enum _ vs) =>
                       match mapM (fun m => decode_ty f items (snd m)) vs with
                       | Some l => Some (SOneOf l false)
                       | None => None
                       end
                   | None => None
                   end
          | [a] =>
              if text_eqb n (lit "Option") then
                match decode_ty f items a with Some v => Some (as_optional v) | None => None end
              else if text_eqb n (lit "Vec") then
                match decode_ty f items a with Some v => Some (SArray v false) | None => None end
              else None
          | _ => None
          end
      end
  end.

Definition decode (fuel : nat) (items : list item) : option shape :=
  match items with
  | [] => None
  | i :: _ => decode_ty fuel items (TPath (item_name i) [])
  end.

Fixpoint ty_weight (x : ty) : nat :=
  match x with
  | TPath _ args => S (fold_right (fun a n => ty_weight a + n) 0 args)
  | TTuple es => S (fold_right (fun a n => ty_weight a + n) 0 es)
  end.
Definition item_weight (i : item) : nat :=
  match i with
  | Alias _ x => S (ty_weight x)
  | Struct _ ms | Enum _ ms => S (fold_right (fun m n => ty_weight (snd m) + n) 0 ms)
  end.
Definition decode_auto (items : list item) : option shape :=
  decode (S (S (fold_right (fun i n => item_weight i + n) 0 items))) items.

Fixpoint erase (s : shape) : shape :=
  match s with
  | SArray x o => SArray (erase x) o
  | SObject c o => SObject (map (fun kv => (to_snake (fst kv), erase (snd kv))) c) o
  | SOneOf vs o => SOneOf (map erase vs) o
  | STuple es o => STuple (map erase es) o
  | _ => s
  end.

(* carve-out of C14: definitions are found by name, so two DIFFERENT definable sub-shapes
   must not share a name; nested optional arrays decode only if their wrapper is Option;
   Rust has no 1-tuples written (T) and () is unit; the root item carries no Option for
   Object / OneOf roots. *)
Definition named (s : shape) : bool :=
  match s with SObject _ _ | SOneOf _ _ => true | _ => false end.

Definition root_defs (s : shape) : list shape := if named s then s :: root_subdefs s else root_subdefs s.

Definition names_inj (s : shape) : bool :=
  let ds := root_defs s in
  forallb (fun x => forallb (fun y => negb (text_eqb (shape_name x) (shape_name y)) || shape_eqb x y) ds) ds
  && (named s || negb (existsb (fun x => text_eqb (shape_name x) (root_item_name s)) ds)).

Definition opt_array_decodes : bool := text_eqb opt_array_head (lit "Option").

Fixpoint inner_dec (s : shape) : bool :=
  match s with
  | SArray x o => (negb o || opt_array_decodes) && inner_dec x
  | SObject c _ => forallb (fun kv => inner_dec (snd kv)) c
  | SOneOf vs _ => forallb inner_dec vs
  | STuple es _ => Nat.leb 2 (length es) && forallb inner_dec es
  | _ => true
  end.

Definition root_dec (s : shape) : bool :=
  match s with
  | SArray x _ => inner_dec x
  | SObject _ o | SOneOf _ o => negb o && inner_dec s
  | _ => inner_dec s
  end.

Definition decodable (s : shape) : bool := names_inj s && root_dec s.

Fixpoint depth (s : shape) : nat :=
  match s with
  | SArray x _ => S (depth x)
  | SObject c _ => S (fold_right (fun kv n => Nat.max (depth (snd kv)) n) 0 c)
  | SOneOf vs _ => S (fold_right (fun v n => Nat.max (depth v) n) 0 vs)
  | STuple es _ => S (fold_right (fun v n => Nat.max (depth v) n) 0 es)
  | _ => 1
  end.

(* ------------------------------------------------------------------ serde derive model (C15)
   What #[derive(Deserialize, Serialize)] + serde_json do for exactly the generated item
   forms (no serde attributes are emitted): a field-less struct is rendered `pub struct X;`
   (a unit struct: null only); struct from a JSON object (fields matched by
   their Rust name, unknown members ignored, duplicate field = error, a missing field is None
   for Option<..> and an error otherwise) or from a JSON array (positional, exact length);
   enum externally tagged {"Variant": payload}; Option<T> null -> None; Vec / tuple from
   arrays; f64 / String / bool / () from number / string / boolean / null. *)
Inductive rval : Type :=
| RUnit | RBool | RNum | RStr
| RNone | RSome (v : rval)
| RSeq (l : list rval)                       (* Vec and tuples *)
| RStruct (fs : list (text * rval))
| REnum (variant : text) (v : rval).

Definition is_option_ty (x : ty) : bool :=
  match x with TPath n [_] => text_eqb n (lit "Option") | _ => false end.

Fixpoint find_members (k : text) (m : list (key * json)) : list json :=
  match m with
  | [] => []
  | (k', v) :: r => if text_eqb k k' then v :: find_members k r else find_members k r
  end.

Fixpoint zipM {A B C : Type} (f : A -> B -> option C) (l : list A) (l' : list B) : option (list C) :=
  match l, l' with
  | [], [] => Some []
  | x :: r, y :: r' => match f x y with
                       | Some z => match zipM f r r' with Some zs => Some (z :: zs) | None => None end
                       | None => None
                       end
  | _, _ => None
  end.

Fixpoint deser (fuel : nat) (items : list item) (x : ty) (d : json) : option rval :=
  match fuel with
  | O => None
  | S f =>
      match x with
      | TTuple es =>
          match es with
          | [] => match d with JNull => Some RUnit | _ => None end
          | [e] => deser f items e d
          | _ => match d with
                 | JArr l => match zipM (deser f items) es l with Some vs => Some (RSeq vs) | None => None end
                 | _ => None
                 end
          end
      | TPath n args =>
          match args with
          | [] =>
              if text_eqb n (lit "f64") then match d with JNum => Some RNum | _ => None end
              else if text_eqb n (lit "String") then match d with JStr => Some RStr | _ => None end
              else if text_eqb n (lit "bool") then match d with JBool => Some RBool | _ => None end
              else match lookup n items with
                   | Some (Alias _ y) => deser f items y d
                   | Some (Struct _ []) =>                        (* `pub struct X;` is a UNIT struct: *)
                       match d with JNull => Some RUnit | _ => None end   (* it reads (and writes) null only *)
                   | Some (Struct _ fs) =>
                       match d with
                       | JObj m =>
                           match mapM (fun fd =>
                                   match find_members (fst fd) m with
                                   | [] => if is_option_ty (snd fd) then Some (fst fd, RNone) else None
                                   | [v] => match deser f items (snd fd) v with
                                            | Some r => Some (fst fd, r) | None => None end
                                   | _ => None                    (* duplicate field *)
                                   end) fs with
                           | Some l => Some (RStruct l)
                           | None => None
                           end
                       | JArr l =>
                           match zipM (fun fd v => match deser f items (snd fd) v with
                                                   | Some r => Some (fst fd, r) | None => None end) fs l with
                           | Some vs => Some (RStruct vs)
                           | None => None
                           end
                       | _ => None
                       end
                   | Some (Enum _ vs) =>
                       match d with
                       | JObj [(k, v)] =>
                           match find (fun m => text_eqb (fst m) k) vs with
                           | Some m => match deser f items (snd m) v with
                                       | Some r => Some (REnum k r) | None => None end
                           | None => None
                           end
                       | _ => None
                       end
                   | None => None
                   end
          | [a] =>
              if text_eqb n (lit "Option") then
                match d with
                | JNull => Some RNone
                | _ => match deser f items a d with Some r => Some (RSome r) | None => None end
                end
              else if text_eqb n (lit "Vec") then
                match d with
                | JArr l => match mapM (deser f items a) l with Some vs => Some (RSeq vs) | None => None end
                | _ => None
                end
              else None
          | _ => None
          end
      end
  end.

Fixpoint reser (v : rval) : json :=
  match v with
  | RUnit | RNone => JNull
  | RBool => JBool
  | RNum => JNum
  | RStr => JStr
  | RSome r => reser r
  | RSeq l => JArr (map reser l)
  | RStruct fs => JObj (map (fun fv => (fst fv, reser (snd fv))) fs)
  | REnum k r => JObj [(k, reser r)]
  end.

Definition deser_root (fuel : nat) (items : list item) (d : json) : option rval :=
  match items with
  | [] => None
  | i :: _ => deser fuel items (TPath (item_name i) []) d
  end.

(* "equal up to number formatting (kinds only: free) and explicit nulls for absent optional
   members", compared as serde_json::Value (member order irrelevant) *)
Fixpoint approx (d d' : json) {struct d} : bool :=
  match d, d' with
  | JNull, JNull | JBool, JBool | JNum, JNum | JStr, JStr => true
  | JArr l, JArr l' =>
      (fix go (l : list json) (l' : list json) {struct l} : bool :=
         match l, l' with
         | [], [] => true
         | x :: r, y :: r' => approx x y && go r r'
         | _, _ => false
         end) l l'
  | JObj m, JObj m' =>
      (fix go (m : list (key * json)) : bool :=
         match m with
         | [] => true
         | (k, v) :: r => match find_members k m' with
                          | [v'] => approx v v'
                          | _ => false
                          end && go r
         end) m
      && forallb (fun kv => doc_has_key (fst kv) m || j_is_null (snd kv)) m'
  | _, _ => false
  end.

(* carve-out of C15 on the shape; on the document: member names not repeated *)
Fixpoint serde_ok (s : shape) : bool :=
  match s with
  | SArray x _ => serde_ok x
  | SObject c _ =>
      negb (match c with [] => true | _ => false end) &&      (* Object{} becomes a unit struct *)
      forallb (fun kv => text_eqb (to_snake (fst kv)) (fst kv) && negb (is_null (snd kv)) && serde_ok (snd kv)) c
  | SOneOf _ _ => false
  | STuple es _ => forallb serde_ok es
  | _ => true
  end.

Definition c15_class (s : shape) : bool := good_names s && decodable s && serde_ok s.

(* ------------------------------------------------------------------ post-fix variants
   The definitions above model the code AS IT IS.  The variants below are what the SWITCH
   definitions become once fixes/F14.diff and fixes/F15.diff are applied to /repo; they are
   kept here (extracted, exercised by the driver ops gen_path_f14 / gen_render_f15) so that
   the theorems about the repaired code are already proved when the fixes land:
     SWITCH(F14):  out_path   := out_path_f14
     SWITCH(F15):  first_pass := first_pass_f15      (seen-set threaded through create_subtype) *)
Definition out_path_f14 (dir name : text) : text := path_join dir (name ++ lit "." ++ gen_ext).

Fixpoint dedup_from (seen : list text) (l : list item) : list item :=
  match l with
  | [] => []
  | i :: r => if existsb (text_eqb (item_name i)) seen then dedup_from seen r
              else i :: dedup_from (item_name i :: seen) r
  end.
Definition dedup_items (l : list item) : list item := dedup_from [] l.
Definition first_pass_f15 (s : shape) : list item := dedup_items (first_pass s).
