(* GenClass.v — the decidable class behind known finding KF4: two shapes that agree on everything the
   generated type name is computed from — constructors, optional flags and the TYPES of members,
   variants and elements in order — but possibly not on member NAMES.  (No proofs in Model files.) *)
From Coq Require Import List Bool NArith.
Import ListNotations.
From JS Require Import Model.Base Model.Shape.

Fixpoint same_types (a b : shape) : bool :=
  match a, b with
  | SNull, SNull => true
  | SBool o, SBool o' | SNumber o, SNumber o' | SString o, SString o' => Bool.eqb o o'
  | SArray x o, SArray y o' => Bool.eqb o o' && same_types x y
  | SObject c o, SObject d o' =>
      Bool.eqb o o' &&
      (fix go (c : list (key * shape)) (d : list (key * shape)) : bool :=
         match c, d with
         | [], [] => true
         | kv :: c', kv' :: d' => same_types (snd kv) (snd kv') && go c' d'
         | _, _ => false
         end) c d
  | SOneOf vs o, SOneOf ws o' =>
      Bool.eqb o o' &&
      (fix go (l m : list shape) : bool :=
         match l, m with
         | [], [] => true
         | x :: l', y :: m' => same_types x y && go l' m'
         | _, _ => false
         end) vs ws
  | STuple es o, STuple fs o' =>
      Bool.eqb o o' &&
      (fix go (l m : list shape) : bool :=
         match l, m with
         | [], [] => true
         | x :: l', y :: m' => same_types x y && go l' m'
         | _, _ => false
         end) es fs
  | _, _ => false
  end.
