(* Walk.v — Cst::{get, children, span} of generated.rs on the flat node vector, and the CST
   walk of json_shape/src/shape/mod.rs:12-288 (parse_cst, has_errors, parse_rule,
   parse_token, parse_member).  EVERY Rust panic site is an explicit [Panic]:
   vector indexing `nodes[i]`, `spans[idx]`, the slices `nodes[a..b]`, `source[span]` (range
   order, end of input, UTF-8 character boundaries), the key slice
   `source[start+1..end-1]` (usize underflow, order, boundaries) and the unwrap /
   unreachable sites of the array classification (already [Panic] in Model/Infer.v).
   The recursion over node references runs on fuel = number of nodes ([EFuel] when it runs
   out; Proofs/TextWalk.v shows it cannot on a well-formed CST).  No proofs in this file. *)
From Coq Require Import List Bool NArith.
Import ListNotations.
From JS Require Import Model.Base Model.Shape Model.Sem Model.Infer Model.Lexer Model.Unescape Model.Parser.

Inductive terr : Type :=
| EInvalidJson (sp : span) (frag : list char)    (* Error::InvalidJson { value, span } *)
| ETooManyRootNodes (n : nat)
| EInvalidType (t : option tok)                  (* Token's Display text; None = "Empty" *)
| EInvalidObjectKey
| EInvalidObjectValue
| EDupConflict (v other : shape)                 (* Error::InvalidObjectValueType *)
| EUnknown
| EEmptyFile
| EFuel.                                         (* model only: a fuel ran out *)

Definition tout := outcome terr.

(* ---------- Cst::get ---------- *)
Definition cst_get (c : cst) (i : nat) : tout node :=
  match nth_error (c_nodes c) i with Some n => Ok n | None => Panic end.

(* ---------- Cst::children: CstChildren::next skips the descendants of a rule child ------ *)
Fixpoint kids (sl : list node) (o skip : nat) : list nat :=
  match sl with
  | [] => []
  | n :: tl =>
      match skip with
      | S k => kids tl (S o) k
      | O => o :: match n with
                  | NRule _ e => kids tl (S o) e
                  | NTok _ _ => kids tl (S o) 0
                  end
      end
  end.

(* nodes[i+1 .. i+off+1] *)
Definition inner (c : cst) (i off : nat) : option (list node) :=
  let sl := firstn off (skipn (S i) (c_nodes c)) in
  if Nat.eqb (length sl) off then Some sl else None.

Definition children (c : cst) (i : nat) : tout (list nat) :=
  match nth_error (c_nodes c) i with
  | None => Panic
  | Some (NTok _ _) => Ok []
  | Some (NRule _ off) =>
      match inner c i off with
      | Some sl => Ok (kids sl (S i) 0)
      | None => Panic
      end
  end.

(* ---------- Cst::span ---------- *)
Fixpoint find_tok (l : list node) : option nat :=
  match l with
  | [] => None
  | NTok _ idx :: _ => Some idx
  | NRule _ _ :: r => find_tok r
  end.

Definition span_at (c : cst) (idx : nat) : tout span :=
  match nth_error (c_spans c) idx with Some sp => Ok sp | None => Panic end.

Definition cst_span (c : cst) (i : nat) : tout span :=
  match nth_error (c_nodes c) i with
  | None => Panic
  | Some (NTok _ idx) => span_at c idx
  | Some (NRule _ off) =>
      match inner c i off with
      | None => Panic
      | Some sl =>
          match find_tok sl, find_tok (rev sl) with
          | Some f, Some l =>
              obind (span_at c f) (fun a => obind (span_at c l) (fun b => Ok (fst a, snd b)))
          | _, _ =>
              match find_tok (rev (firstn i (c_nodes c))) with
              | None => Ok (0%N, 0%N)
              | Some b => obind (span_at c b) (fun sp => Ok (snd sp, snd sp))
              end
          end
      end
  end.

(* ---------- source[span]: None = the slice panics ---------- *)
Fixpoint drop_bytes (n : N) (cs : list char) : option (list char) :=
  if N.eqb n 0 then Some cs
  else match cs with
       | [] => None
       | c :: r => if N.leb (utf8_len c) n then drop_bytes (n - utf8_len c) r else None
       end.

Fixpoint take_bytes (n : N) (cs : list char) : option (list char) :=
  if N.eqb n 0 then Some []
  else match cs with
       | [] => None
       | c :: r => if N.leb (utf8_len c) n
                   then option_map (cons c) (take_bytes (n - utf8_len c) r) else None
       end.

Definition slice_src (src : list char) (sp : span) : option (list char) :=
  if N.leb (fst sp) (snd sp) then
    match drop_bytes (fst sp) src with
    | Some r => take_bytes (snd sp - fst sp) r
    | None => None
    end
  else None.

(* `let span = cst.span(n); let value = source[span.clone()].to_string();
    return Err(Error::InvalidJson { value, span })` *)
Definition invalid_json {A} (c : cst) (src : list char) (i : nat) : tout A :=
  obind (cst_span c i) (fun sp =>
    match slice_src src sp with
    | Some fr => Err (EInvalidJson sp fr)
    | None => Panic
    end).

Fixpoint kid_nodes (c : cst) (ks : list nat) : tout (list (nat * node)) :=
  match ks with
  | [] => Ok []
  | k :: r => obind (cst_get c k) (fun n => obind (kid_nodes c r) (fun l => Ok ((k, n) :: l)))
  end.

Definition kids_of (c : cst) (i : nat) : tout (list (nat * node)) :=
  obind (children c i) (kid_nodes c).

Definition is_error_node (n : node) : bool :=
  match n with NTok TError _ | NRule RError _ => true | _ => false end.
Definition is_ws_node (n : node) : bool :=
  match n with NTok TWhitespace _ | NTok TNewline _ => true | _ => false end.
Definition is_array_punct (n : node) : bool :=
  match n with
  | NTok TWhitespace _ | NTok TNewline _ | NTok TComma _ | NTok TLBrak _ | NTok TRBrak _ => true
  | _ => false
  end.
Definition is_member_node (n : node) : bool :=
  match n with NRule RMember _ => true | _ => false end.
Definition is_string_tok (n : node) : bool :=
  match n with NTok TString _ => true | _ => false end.
Definition is_value_rule (n : node) : bool :=
  match n with
  | NRule RArray _ | NRule RBoolean _ | NRule RLiteral _ | NRule RObject _ => true
  | _ => false
  end.

Definition find_kid (p : node -> bool) (kn : list (nat * node)) : option nat :=
  match find (fun x => p (snd x)) kn with Some x => Some (fst x) | None => None end.

(* mod.rs:56-74 *)
Definition has_errors (c : cst) (src : list char) (root : nat) : tout unit :=
  obind (kids_of c root) (fun kn =>
    match find_kid is_error_node kn with
    | Some e => invalid_json c src e
    | None => Ok tt
    end).

(* mod.rs:217-229 *)
Definition parse_token (c : cst) (i : nat) : tout shape :=
  obind (cst_get c i) (fun n =>
    match n with
    | NRule RBoolean _ | NTok TFalse _ | NTok TTrue _ => Ok (SBool false)
    | NRule _ _ => Err EUnknown
    | NTok TNull _ => Ok SNull
    | NTok TString _ => Ok (SString false)
    | NTok TNumber _ => Ok (SNumber false)
    | NTok t _ => Err (EInvalidType (Some t))
    end).

Definition lift_infer (x : outcome ierr shape) : tout shape :=
  match x with
  | Ok s => Ok s
  | Err (DupConflict a b) => Err (EDupConflict a b)
  | Panic => Panic
  end.

(* mod.rs:232-288; [pr] is the recursive call of parse_rule *)
Definition parse_member (pr : nat -> tout shape) (c : cst) (src : list char) (i : nat)
  (content : list (key * shape)) : tout (list (key * shape)) :=
  obind (kids_of c i) (fun kn =>
    match find_kid is_string_tok kn with
    | None => Err EInvalidObjectKey
    | Some k =>
        obind (cst_span c k) (fun ksp =>
          match (if N.eqb (snd ksp) 0 then None                        (* key_span.end - 1 *)
                 else slice_src src (fst ksp + 1, snd ksp - 1)%N) with
          | None => Panic
          | Some kchars =>
              let key := utf8_encode (name_chars kchars) in
              obind (has_errors c src i) (fun _ =>
                match find_kid is_value_rule kn with
                | None => Err EInvalidObjectValue
                | Some v =>
                    obind (pr v) (fun s =>
                      match map_get key content with
                      | Some (SOneOf vs _) =>
                          if sset_mem s vs then Ok content
                          else Err (EDupConflict s (SOneOf vs false))
                      | Some other =>
                          if shape_eqb s other then Ok content
                          else Err (EDupConflict s other)
                      | None => Ok (map_insert key s content)
                      end)
                end)
          end)
    end).

Fixpoint fold_members (pm : nat -> list (key * shape) -> tout (list (key * shape)))
  (ms : list nat) (content : list (key * shape)) : tout (list (key * shape)) :=
  match ms with
  | [] => Ok content
  | m :: r => obind (pm m content) (fold_members pm r)
  end.

(* mod.rs:76-215 *)
Fixpoint parse_rule (fuel : nat) (c : cst) (src : list char) (i : nat) : tout shape :=
  match fuel with
  | O => Err EFuel
  | S f =>
      obind (cst_get c i) (fun n =>
        match n with
        | NRule RLiteral _ =>
            obind (has_errors c src i) (fun _ =>
              obind (children c i) (fun ks =>
                match ks with
                | k :: _ => parse_token c k
                | [] => Err (EInvalidType None)
                end))
        | NRule RBoolean _ => Ok (SBool false)
        | NRule RArray _ =>
            obind (has_errors c src i) (fun _ =>
              obind (kids_of c i) (fun kn =>
                let subs := map fst (filter (fun x => negb (is_array_punct (snd x))) kn) in
                obind (mapM_o (parse_rule f c src) subs) (fun es => lift_infer (array_text es))))
        | NRule RObject _ =>
            obind (has_errors c src i) (fun _ =>
              obind (kids_of c i) (fun kn =>
                let ms := map fst (filter (fun x => is_member_node (snd x)) kn) in
                obind (fold_members (parse_member (parse_rule f c src) c src) ms [])
                      (fun content => Ok (SObject content false))))
        | _ => invalid_json c src i
        end)
  end.

(* first child whose own has_errors fails: `find(|n| has_errors(cst, source, *n).is_err())` *)
Fixpoint first_err_child (c : cst) (src : list char) (ks : list nat) : tout (option nat) :=
  match ks with
  | [] => Ok None
  | k :: r =>
      match has_errors c src k with
      | Ok _ => first_err_child c src r
      | Err _ => Ok (Some k)
      | Panic => Panic
      end
  end.

(* mod.rs:12-54 *)
Definition parse_cst (c : cst) (src : list char) : tout shape :=
  obind (cst_get c 0) (fun n0 =>
    match n0 with
    | NRule RFile _ =>
        obind (has_errors c src 0) (fun _ =>
          obind (kids_of c 0) (fun kn =>
            let nonws := filter (fun x => negb (is_ws_node (snd x))) kn in
            if Nat.ltb 1 (length nonws) then
              obind (first_err_child c src (map fst kn)) (fun e =>
                match e with
                | Some k => invalid_json c src k
                | None => Err (ETooManyRootNodes (length kn))
                end)
            else
              match nonws with
              | [] => invalid_json c src 0
              | x :: _ => parse_rule (length (c_nodes c)) c src (fst x)
              end))
    | _ => invalid_json c src 0
    end).
