(* Parser.v — the lelwel 0.8 generated recovering parser (OUT_DIR/generated.rs, from
   json_shape/src/json.llw) transliterated: Parser::{error, advance, init_skip,
   advance_with_error, span}, Cst::{open, close, close_root, advance} and the rule functions
   rule_file/value/object/member/array/boolean/literal.  The CST is the flat node vector of
   the Rust code (a rule node carries the offset of its last descendant, a token node the
   index of its span).
   Differences of representation (not of behaviour):
   - the node vector is kept reversed while parsing (push = cons) and reversed at the end;
   - `tokens[pos..]` is the list [p_rest]; `self.current` is not stored: in the Rust code it
     is always `tokens.get(pos)` (or EOF past the end) whenever it is read, so [cur] derives it;
   - recursion and the two `loop`s run on fuel; running out is the distinguished status
     [PFuel] (Proofs/TextParser.v: it cannot happen with the fuel [parse_fuel] gives).
   No proofs in this file. *)
From Coq Require Import List Bool NArith.
Import ListNotations.
From JS Require Import Model.Base Model.Lexer.

Inductive rule : Type :=
| RArray | RBoolean | RError | RFile | RLiteral | RMember | RObject | RValue.

Inductive node : Type :=
| NRule (r : rule) (off : nat)       (* Node::Rule(rule, offset of the last node inside) *)
| NTok (t : tok) (idx : nat).        (* Node::Token(token, index into spans) *)

Record pst : Type := {
  p_nodes : list node;          (* reversed *)
  p_nlen : nat;                 (* nodes.len() *)
  p_tcount : nat;               (* cst.token_count *)
  p_nonskip : nat;              (* cst.non_skip_len *)
  p_rest : list (tok * span);   (* tokens[pos..] zipped with spans[pos..] *)
  p_cool : bool;                (* error_cooldown *)
  p_last : span;                (* last_error_span *)
  p_diags : list diag;          (* reversed *)
  p_max : N;                    (* max_offset = source.len() *)
  p_bad : bool                  (* an index of the Rust code was out of range (panic) *)
}.

Definition span_eqb (a b : span) : bool := N.eqb (fst a) (fst b) && N.eqb (snd a) (snd b).

Definition is_skipped (t : tok) : bool :=
  match t with TError | TWhitespace | TNewline => true | _ => false end.

Definition cur (s : pst) : tok :=
  match p_rest s with (t, _) :: _ => t | [] => TEOF end.

(* Parser::span *)
Definition pspan (s : pst) : span :=
  match p_rest s with (_, sp) :: _ => sp | [] => (p_max s, p_max s) end.

(* ---- Cst ---- *)
Definition push_node (n : node) (nonskip : nat -> nat -> nat) (tinc : nat) (s : pst) : pst :=
  {| p_nodes := n :: p_nodes s; p_nlen := S (p_nlen s); p_tcount := tinc + p_tcount s;
     p_nonskip := nonskip (p_nonskip s) (S (p_nlen s)); p_rest := p_rest s; p_cool := p_cool s;
     p_last := p_last s; p_diags := p_diags s; p_max := p_max s; p_bad := p_bad s |}.

(* Cst::open: returns the mark *)
Definition cst_open (s : pst) : nat * pst :=
  (p_nlen s, push_node (NRule RError 0) (fun _ n => n) 0 s).

(* Cst::advance(token, skip) *)
Definition cst_advance (t : tok) (skip : bool) (s : pst) : pst :=
  push_node (NTok t (p_tcount s)) (fun old n => if skip then old else n) 1 s.

(* nodes[i] = v on the reversed vector of length n *)
Fixpoint set_nth {A} (k : nat) (v : A) (l : list A) : option (list A) :=
  match l with
  | [] => None
  | x :: r => match k with
              | O => Some (v :: r)
              | S k' => option_map (cons x) (set_nth k' v r)
              end
  end.

Definition set_node (i : nat) (v : node) (nonskip : nat) (s : pst) : pst :=
  match (if Nat.ltb i (p_nlen s) then set_nth (p_nlen s - 1 - i) v (p_nodes s) else None) with
  | Some ns =>
      {| p_nodes := ns; p_nlen := p_nlen s; p_tcount := p_tcount s; p_nonskip := nonskip;
         p_rest := p_rest s; p_cool := p_cool s; p_last := p_last s; p_diags := p_diags s;
         p_max := p_max s; p_bad := p_bad s |}
  | None =>
      {| p_nodes := p_nodes s; p_nlen := p_nlen s; p_tcount := p_tcount s; p_nonskip := nonskip;
         p_rest := p_rest s; p_cool := p_cool s; p_last := p_last s; p_diags := p_diags s;
         p_max := p_max s; p_bad := true |}
  end.

(* Cst::close *)
Definition cst_close (mark : nat) (r : rule) (s : pst) : pst :=
  let len := p_nonskip s - 1 in
  if Nat.ltb len mark then set_node mark (NRule r 0) (p_nonskip s + (mark - len)) s
  else set_node mark (NRule r (len - mark)) (p_nonskip s) s.

(* Cst::close_root *)
Definition cst_close_root (mark : nat) (r : rule) (s : pst) : pst :=
  set_node mark (NRule r (p_nlen s - 1 - mark)) (p_nonskip s) s.

(* ---- Parser ---- *)
Definition with_rest (rest : list (tok * span)) (s : pst) : pst :=
  {| p_nodes := p_nodes s; p_nlen := p_nlen s; p_tcount := p_tcount s; p_nonskip := p_nonskip s;
     p_rest := rest; p_cool := p_cool s; p_last := p_last s; p_diags := p_diags s;
     p_max := p_max s; p_bad := p_bad s |}.

Definition with_cool (b : bool) (s : pst) : pst :=
  {| p_nodes := p_nodes s; p_nlen := p_nlen s; p_tcount := p_tcount s; p_nonskip := p_nonskip s;
     p_rest := p_rest s; p_cool := b; p_last := p_last s; p_diags := p_diags s;
     p_max := p_max s; p_bad := p_bad s |}.

(* Parser::error: suppressed in cooldown or when the span repeats *)
Definition perror (s : pst) : pst :=
  if p_cool s || span_eqb (p_last s) (pspan s) then s
  else {| p_nodes := p_nodes s; p_nlen := p_nlen s; p_tcount := p_tcount s;
          p_nonskip := p_nonskip s; p_rest := p_rest s; p_cool := p_cool s;
          p_last := pspan s; p_diags := (DSyntax, pspan s) :: p_diags s;
          p_max := p_max s; p_bad := p_bad s |}.

(* the `loop` of Parser::advance / init_skip: following Error|Whitespace|Newline tokens
   enter the tree as skipped tokens *)
Fixpoint skip_loop (rest : list (tok * span)) (s : pst) : pst :=
  match rest with
  | (t, _) :: r => if is_skipped t then skip_loop r (cst_advance t true s) else with_rest rest s
  | [] => with_rest [] s
  end.

Definition init_skip (s : pst) : pst := skip_loop (p_rest s) s.

(* Parser::advance(error) *)
Definition padvance (error : bool) (s : pst) : pst :=
  let s := if error then s else with_cool false s in
  let s := cst_advance (cur s) false s in
  skip_loop (tl (p_rest s)) s.

(* expect!(Token, ..) *)
Definition expect (t : tok) (s : pst) : pst :=
  if tok_eqb (cur s) t then padvance false s else perror s.

(* Parser::advance_with_error *)
Definition advance_with_error (s : pst) : pst :=
  let '(m, s) := cst_open s in
  let s := perror s in
  let s := with_cool true s in
  let s := padvance true s in
  cst_close m RError s.

Definition rule_boolean (s : pst) : pst :=
  let '(m, s) := cst_open s in
  let s := match cur s with
           | TFalse => expect TFalse s
           | TTrue => expect TTrue s
           | _ => perror s
           end in
  cst_close m RBoolean s.

Definition rule_literal (s : pst) : pst :=
  let '(m, s) := cst_open s in
  let s := match cur s with
           | TString => expect TString s
           | TNumber => expect TNumber s
           | TFalse | TTrue => rule_boolean s
           | TNull => expect TNull s
           | _ => perror s
           end in
  cst_close m RLiteral s.

Definition obind_opt {A B} (x : option A) (f : A -> option B) : option B :=
  match x with Some a => f a | None => None end.

(* None = out of fuel *)
Fixpoint rule_value (fuel : nat) (s : pst) : option pst :=
  match fuel with
  | O => None
  | S f =>
      match cur s with
      | TLBrace => rule_object f s
      | TLBrak => rule_array f s
      | TFalse | TNull | TNumber | TString | TTrue => Some (rule_literal s)
      | _ => Some (perror s)
      end
  end
with rule_object (fuel : nat) (s : pst) : option pst :=
  match fuel with
  | O => None
  | S f =>
      let '(m, s) := cst_open s in
      let s := expect TLBrace s in
      obind_opt
        (match cur s with
         | TString => obind_opt (rule_member f s) (object_loop f)
         | TRBrace => Some s
         | _ => Some (perror s)
         end)
        (fun s => Some (cst_close m RObject (expect TRBrace s)))
  end
with object_loop (fuel : nat) (s : pst) : option pst :=
  match fuel with
  | O => None
  | S f =>
      match cur s with
      | TComma => obind_opt (rule_member f (expect TComma s)) (object_loop f)
      | TRBrace | TEOF | TRBrak => Some s
      | _ => object_loop f (advance_with_error s)
      end
  end
with rule_member (fuel : nat) (s : pst) : option pst :=
  match fuel with
  | O => None
  | S f =>
      let '(m, s) := cst_open s in
      let s := expect TString s in
      let s := expect TColon s in
      obind_opt (rule_value f s) (fun s => Some (cst_close m RMember s))
  end
with rule_array (fuel : nat) (s : pst) : option pst :=
  match fuel with
  | O => None
  | S f =>
      let '(m, s) := cst_open s in
      let s := expect TLBrak s in
      obind_opt
        (match cur s with
         | TFalse | TLBrace | TLBrak | TNull | TNumber | TString | TTrue =>
             obind_opt (rule_value f s) (array_loop f)
         | TRBrak => Some s
         | _ => Some (perror s)
         end)
        (fun s => Some (cst_close m RArray (expect TRBrak s)))
  end
with array_loop (fuel : nat) (s : pst) : option pst :=
  match fuel with
  | O => None
  | S f =>
      match cur s with
      | TComma => obind_opt (rule_value f (expect TComma s)) (array_loop f)
      | TRBrak | TEOF | TRBrace => Some s
      | _ => array_loop f (advance_with_error s)
      end
  end.

(* the trailing loop of rule_file: every remaining token goes under one error node *)
Fixpoint drain (rest : list (tok * span)) (s : pst) : pst :=
  match rest with
  | (t, _) :: r => drain r (cst_advance t (is_skipped t) s)
  | [] => with_rest [] s
  end.

Definition rule_file (fuel : nat) (s : pst) : option pst :=
  let '(m, s) := cst_open s in
  let s := init_skip s in
  obind_opt (rule_value fuel s) (fun s =>
    let s := match cur s with
             | TEOF => s
             | _ =>
                 let s := perror s in
                 let '(et, s) := cst_open s in
                 let s := drain (p_rest s) s in
                 cst_close et RError s
             end in
    Some (cst_close_root m RFile s)).

(* ---- result ---- *)
Inductive pstatus : Type := POk | PFuel | PPanic.

Record cst : Type := {
  c_nodes : list node;
  c_spans : list span;
  c_tcount : nat;
  c_nonskip : nat
}.

Record parsed : Type := {
  pr_cst : cst;
  pr_diags : list diag;       (* lexer diagnostics first, then the parser's, in order *)
  pr_status : pstatus
}.

Definition parse_fuel (toks : list (tok * span)) : nat := 4 * length toks + 8.

Definition init_pst (toks : list (tok * span)) (max_offset : N) : pst :=
  {| p_nodes := []; p_nlen := 0; p_tcount := 0; p_nonskip := 0; p_rest := toks;
     p_cool := false; p_last := (0%N, 0%N); p_diags := []; p_max := max_offset; p_bad := false |}.

Definition empty_cst (toks : list (tok * span)) : cst :=
  {| c_nodes := []; c_spans := map snd toks; c_tcount := 0; c_nonskip := 0 |}.

Definition parse_tokens (toks : list (tok * span)) (max_offset : N) (ldiags : list diag) : parsed :=
  match rule_file (parse_fuel toks) (init_pst toks max_offset) with
  | None => {| pr_cst := empty_cst toks; pr_diags := ldiags; pr_status := PFuel |}
  | Some s =>
      {| pr_cst := {| c_nodes := rev (p_nodes s); c_spans := map snd toks;
                      c_tcount := p_tcount s; c_nonskip := p_nonskip s |};
         pr_diags := ldiags ++ rev (p_diags s);
         pr_status := if p_bad s then PPanic else POk |}
  end.
