(* Subset.v — IsSubset (json_shape/src/value/subset.rs:18-210), the IsOneOf helpers it
   uses (value/subtypes.rs:248-455) and Similar (value.rs:305-361).  No proofs here. *)
From Coq Require Import List Bool NArith.
Import ListNotations.
From JS Require Import Model.Base Model.Shape.

(* IsOneOf<K> : some variant is K{optional:false}  (subtypes.rs:259-296) *)
Definition oneof_nonopt (tg : N) (b : shape) : bool :=
  match b with
  | SOneOf vs _ => existsb (fun v => N.eqb (tag v) tg && negb (is_optional v)) vs
  | _ => false
  end.

(* IsOneOf<Optional<K>> : some variant is K{_} and Null is a variant (subtypes.rs:378-416) *)
Definition oneof_opt (tg : N) (b : shape) : bool :=
  match b with
  | SOneOf vs _ => existsb (fun v => N.eqb (tag v) tg) vs && sset_mem SNull vs
  | _ => false
  end.

(* subset.rs:25-36 (optional scalars) and 116-130 (non-optional scalars) *)
Definition scalar_subset (tg : N) (o : bool) (b : shape) : bool :=
  if o then (N.eqb (tag b) tg && is_optional b) || oneof_opt tg b
  else N.eqb (tag b) tg || oneof_nonopt tg b || oneof_opt tg b.

Fixpoint is_subset (a b : shape) {struct a} : bool :=
  match a with
  | SNull => is_optional b || is_null b
  | SBool o => scalar_subset 1 o b
  | SNumber o => scalar_subset 2 o b
  | SString o => scalar_subset 3 o b
  | SArray t o =>
      match b with
      | SArray t' o' => implb o o' && is_subset t t'
      | SOneOf vs _ => sset_mem (SArray t o) vs || sset_mem (SArray t true) vs
      | _ => false
      end
  | STuple es o =>
      match b with
      | STuple os o' =>
          implb o o' &&
          (fix go (es os : list shape) {struct es} : bool :=
             match es, os with
             | [], [] => true
             | e :: es', x :: os' => is_subset e x && go es' os'
             | _, _ => false
             end) es os
      | SOneOf vs _ => sset_mem (STuple es o) vs || sset_mem (STuple es true) vs
      | SArray (SOneOf vs _) o' => implb o o' && forallb (fun e => sset_mem e vs) es
      | _ => false
      end
  | SObject c o =>
      let obj_check (c' : list (key * shape)) : bool :=
        forallb (fun kv => map_has (fst kv) c || is_optional (snd kv)) c'
        && (fix go (c : list (key * shape)) : bool :=
              match c with
              | [] => true
              | (k, v) :: r =>
                  match map_get k c' with
                  | Some ov => is_subset v ov
                  | None => false
                  end && go r
              end) c in
      match b with
      | SObject c' o' => implb o o' && obj_check c'
      | SOneOf vs _ =>
          existsb (fun var => match var with
                              | SObject c' o' => implb o o' && obj_check c'
                              | _ => false
                              end) vs
      | _ => false
      end
  | SOneOf vs o =>
      match b with
      | SOneOf ws o' =>
          implb o o' &&
          (sset_subset vs ws
           || (fix go (vs : list shape) : bool :=
                 match vs with
                 | [] => true
                 | v :: r => existsb (fun w => is_subset v w) ws && go r
                 end) vs)
      | _ => false
      end
  end.

(* value.rs:305-361 : equal up to the top-level flag -> the optional-if-either version *)
Definition similar (a b : shape) : option shape :=
  if N.eqb (tag a) (tag b) && shape_eqb (as_non_optional a) (as_non_optional b)
  then Some (set_flag (is_optional a || is_optional b) a)
  else None.
