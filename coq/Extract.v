(* Extract.v — extraction of every executable model definition to OCaml.
   ExtrOcamlBasic only: bool, option, unit, prod, list, sumbool, sumor map to OCaml's own;
   N, positive, comparison, nat stay extracted datatypes.  No Extract Constant. *)
From Coq Require Import Extraction ExtrOcamlBasic.
From Coq Require Import List NArith.
From JS Require Import Model.Base Model.Shape Model.Sem Model.Subset Model.Merger Model.Infer Model.Api Model.Repr Model.Cost Model.Gen Model.GenClass Model.OneOfClass.
From JS Require Import Model.Lexer Model.Parser Model.Walk Model.TextApi Model.JsonRef Model.ValueCost Model.TextClasses Model.Depth.
Extraction Language OCaml.
Set Extraction AccessOpaque.
Extraction "Model.ml"
  sset_insert map_insert map_get map_remove
  cmp shape_eqb wf is_optional as_optional as_non_optional oneof_free size
  mem nodup_keys
  is_subset similar
  merger merge no_null_array
  infer_text infer_value array_text array_value conflict_free key_conflict
  from_sources_tree is_superset_tree is_superset_checked_tree
  ser de ser_text display ident_keys
  subset_c merger_c calls_infer
  (* generator layer (Model/Gen.v) *)
  to_snake to_pascal crc32 hex_upper printable_text shape_name shape_representation
  first_pass render gen_text file_text gen_header header_ok out_path macro_path plain_name plain_dir
  compile_json_m no_write wf_items wf_module good_names decodable names_inj serde_ok c15_class
  decode_auto erase deser_root reser approx out_path_f14 first_pass_f15 opt_array_ok opt_array_decodes
  (* text level *)
  cfg_now cfg_fixed utf8_encode lex parse_text cst_get children cst_span parse_cst
  from_str_m from_sources_m is_superset_m is_superset_checked_m accepts
  ref_json ref_accepts jdepth dup_consistent has_bare_cr render_text
  vcalls jnodes value_cost_excess
  ndiags diag_dropped cr_rejected
  (* recursion depth twins (Model/Depth.v) *)
  parse_depth walk_depth value_depth
  (* class of KF4 *)
  same_types
  (* class on which C03 is a theorem (complement = KF2) *)
  scalar_oneofs.
