(* Extract.v — extraction of every executable model definition to OCaml.
   ExtrOcamlBasic only: bool, option, unit, prod, list, sumbool, sumor map to OCaml's own;
   N, positive, comparison, nat stay extracted datatypes.  No Extract Constant. *)
From Coq Require Import Extraction ExtrOcamlBasic.
From Coq Require Import List NArith.
From JS Require Import Model.Base Model.Shape Model.Sem Model.Subset Model.Merger Model.Infer Model.Api Model.Repr Model.Cost.
Extraction Language OCaml.
Set Extraction AccessOpaque.
Extraction "Model.ml"
  sset_insert map_insert map_get map_remove
  cmp shape_eqb wf is_optional as_optional as_non_optional oneof_free size
  mem nodup_keys
  is_subset similar
  merger merge no_null_array
  infer_text infer_value array_text array_value conflict_free key_conflict
  from_sources_tree is_superset_tree is_superset_checked_tree
  ser de ser_text display ident_keys
  subset_c merger_c calls_infer.
