#!/bin/sh
# Build the framework offline from files on disk: Coq development (full .vo), extracted
# OCaml model + driver, Rust harness against /repo (hooks on).
set -e
here=$(cd "$(dirname "$0")" && pwd)
export CARGO_NET_OFFLINE=true
cd "$here/coq"
coq_makefile -f _CoqProject -o Makefile
timeout 3000 make -j16
"$here/ocaml/build.sh"
cd "$here/harness"
cargo build --release --offline
echo setup-ok
