(* genops.ml — generator-side model operations; filled in with the Gen model. *)
let run (_op : string) (_a : string array) : string = "ERR BadOp"
