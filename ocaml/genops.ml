(* genops.ml — generator-side model operations (Model/Gen.v extracted).
   Every op prints one canonical line; the harness (genops.rs) prints the same line for the
   ops that exist on both sides.  Compiled before driver.ml, hence its own small parsers. *)
open Model

(* the extracted model defines its own (Coq) string type; restore OCaml's *)
type string = String.t

(* ---- N / nat <-> int ---- *)
let rec pos_of_int (i : int) : positive =
  if i = 1 then XH else if i land 1 = 0 then XO (pos_of_int (i lsr 1)) else XI (pos_of_int (i lsr 1))
let n_of_int (i : int) : n = if i = 0 then N0 else Npos (pos_of_int i)
let rec int_of_pos (p : positive) : int =
  match p with XH -> 1 | XO q -> 2 * int_of_pos q | XI q -> (2 * int_of_pos q) + 1
let int_of_n (x : n) : int = match x with N0 -> 0 | Npos p -> int_of_pos p
let rec nat_of_int (i : int) : nat = if i <= 0 then O else S (nat_of_int (i - 1))

(* ---- hex / texts ---- *)
let hexdigit c =
  match c with
  | '0' .. '9' -> Char.code c - 48
  | 'a' .. 'f' -> Char.code c - 87
  | 'A' .. 'F' -> Char.code c - 55
  | _ -> failwith "hex"
let is_hex c = match c with '0' .. '9' | 'a' .. 'f' | 'A' .. 'F' -> true | _ -> false
let unhex (s : string) : int list =
  List.init (String.length s / 2) (fun i -> (16 * hexdigit s.[2 * i]) + hexdigit s.[(2 * i) + 1])
let text_of_hex (s : string) : n list = List.map n_of_int (unhex s)
let hex_of_text (k : n list) : string =
  let b = Buffer.create (2 * List.length k) in
  List.iter (fun x -> Buffer.add_string b (Printf.sprintf "%02x" (int_of_n x))) k;
  Buffer.contents b
let arg_text (s : string) : n list = if s = "-" then [] else text_of_hex s
let show_text x = "TEXT " ^ hex_of_text x
let show_bool b = if b then "BOOL 1" else "BOOL 0"

(* ---- shapes ---- *)
let flag o = if o then "1" else "0"
let rec show (b : Buffer.t) (s : shape) : unit =
  match s with
  | SNull -> Buffer.add_char b 'N'
  | SBool o -> Buffer.add_string b ("B" ^ flag o)
  | SNumber o -> Buffer.add_string b ("#" ^ flag o)
  | SString o -> Buffer.add_string b ("S" ^ flag o)
  | SArray (x, o) -> Buffer.add_string b ("A" ^ flag o ^ "("); show b x; Buffer.add_char b ')'
  | STuple (es, o) ->
      Buffer.add_string b ("T" ^ flag o ^ "(");
      List.iteri (fun i e -> if i > 0 then Buffer.add_char b ','; show b e) es;
      Buffer.add_char b ')'
  | SOneOf (vs, o) ->
      Buffer.add_string b ("U" ^ flag o ^ "[");
      List.iteri (fun i e -> if i > 0 then Buffer.add_char b '|'; show b e) vs;
      Buffer.add_char b ']'
  | SObject (c, o) ->
      Buffer.add_string b ("O" ^ flag o ^ "{");
      List.iteri (fun i (k, v) ->
          if i > 0 then Buffer.add_char b ',';
          Buffer.add_string b (hex_of_text k); Buffer.add_char b ':'; show b v) c;
      Buffer.add_char b '}'
let shape_str s = let b = Buffer.create 64 in show b s; Buffer.contents b

type st = { s : string; mutable i : int }
let peek p = if p.i < String.length p.s then p.s.[p.i] else '\000'
let next p = let c = peek p in p.i <- p.i + 1; c
let pflag p = next p = '1'
let hexkey p =
  let st = p.i in
  while is_hex (peek p) do p.i <- p.i + 1 done;
  text_of_hex (String.sub p.s st (p.i - st))
let expect p c = if next p <> c then failwith ("expected " ^ String.make 1 c)

(* [raw]: keep the written order (no BTree normalisation) — used for erased shapes *)
let rec pshape raw p : shape =
  match next p with
  | 'N' -> SNull
  | 'B' -> SBool (pflag p)
  | '#' -> SNumber (pflag p)
  | 'S' -> SString (pflag p)
  | 'A' -> let o = pflag p in expect p '('; let x = pshape raw p in expect p ')'; SArray (x, o)
  | 'T' -> let o = pflag p in expect p '('; STuple (plist raw p ')', o)
  | 'U' ->
      let o = pflag p in
      expect p '[';
      let es = plist raw p ']' in
      SOneOf ((if raw then es else List.fold_left (fun acc x -> sset_insert x acc) [] es), o)
  | 'O' ->
      let o = pflag p in
      expect p '{';
      let c =
        if peek p = '}' then (p.i <- p.i + 1; [])
        else
          let rec go acc =
            let k = hexkey p in
            expect p ':';
            let v = pshape raw p in
            let acc = if raw then acc @ [ (k, v) ] else map_insert k v acc in
            if next p = '}' then acc else go acc
          in
          go []
      in
      SObject (c, o)
  | c -> failwith ("bad shape char " ^ String.make 1 c)
and plist raw p close : shape list =
  if peek p = close then (p.i <- p.i + 1; [])
  else
    let rec go acc =
      let x = pshape raw p in
      let acc = x :: acc in
      if next p = close then List.rev acc else go acc
    in
    go []
let parse_shape s =
  let p = { s; i = 0 } in
  let r = pshape false p in
  if p.i <> String.length s then failwith "trailing shape input";
  r

(* ---- documents ---- *)
let rec pdoc p : json =
  match next p with
  | 'n' -> JNull | 't' -> JBool | '1' -> JNum | 's' -> JStr
  | '[' ->
      if peek p = ']' then (p.i <- p.i + 1; JArr [])
      else
        let rec go acc = let x = pdoc p in let acc = x :: acc in if next p = ']' then List.rev acc else go acc in
        JArr (go [])
  | '{' ->
      if peek p = '}' then (p.i <- p.i + 1; JObj [])
      else
        let rec go acc =
          let k = hexkey p in
          expect p ':';
          let v = pdoc p in
          let acc = (k, v) :: acc in
          if next p = '}' then List.rev acc else go acc
        in
        JObj (go [])
  | c -> failwith ("bad doc char " ^ String.make 1 c)
let parse_doc s =
  let p = { s; i = 0 } in
  let r = pdoc p in
  if p.i <> String.length s then failwith "trailing doc input";
  r
let rec show_doc b (d : json) =
  match d with
  | JNull -> Buffer.add_char b 'n' | JBool -> Buffer.add_char b 't'
  | JNum -> Buffer.add_char b '1' | JStr -> Buffer.add_char b 's'
  | JArr l -> Buffer.add_char b '['; List.iteri (fun i e -> if i > 0 then Buffer.add_char b ','; show_doc b e) l; Buffer.add_char b ']'
  | JObj m ->
      Buffer.add_char b '{';
      List.iteri (fun i (k, v) -> if i > 0 then Buffer.add_char b ',';
                   Buffer.add_string b (hex_of_text k); Buffer.add_char b ':'; show_doc b v) m;
      Buffer.add_char b '}'
let doc_str d = let b = Buffer.create 64 in show_doc b d; Buffer.contents b

(* ---- items:  A<hexname>=<ty> ; S<hexname>{<hexfield>:<ty>,..} ; E<hexname>{..}   joined by ';'
        ty:  p<hexname>[<ty,..>]  |  (ty,..)  ---- *)
let rec show_ty b (x : ty) =
  match x with
  | TPath (n, args) ->
      Buffer.add_char b 'p'; Buffer.add_string b (hex_of_text n);
      if args <> [] then begin
        Buffer.add_char b '<';
        List.iteri (fun i a -> if i > 0 then Buffer.add_char b ','; show_ty b a) args;
        Buffer.add_char b '>' end
  | TTuple es ->
      Buffer.add_char b '(';
      List.iteri (fun i a -> if i > 0 then Buffer.add_char b ','; show_ty b a) es;
      Buffer.add_char b ')'
let show_members b ms =
  Buffer.add_char b '{';
  List.iteri (fun i (k, x) -> if i > 0 then Buffer.add_char b ',';
               Buffer.add_string b (hex_of_text k); Buffer.add_char b ':'; show_ty b x) ms;
  Buffer.add_char b '}'
let items_str (its : item list) =
  let b = Buffer.create 256 in
  List.iteri (fun i it ->
      if i > 0 then Buffer.add_char b ';';
      match it with
      | Alias (n, x) -> Buffer.add_char b 'A'; Buffer.add_string b (hex_of_text n); Buffer.add_char b '='; show_ty b x
      | Struct (n, ms) -> Buffer.add_char b 'S'; Buffer.add_string b (hex_of_text n); show_members b ms
      | Enum (n, ms) -> Buffer.add_char b 'E'; Buffer.add_string b (hex_of_text n); show_members b ms) its;
  Buffer.contents b

let rec pty p : ty =
  match next p with
  | 'p' ->
      let n = hexkey p in
      if peek p = '<' then (p.i <- p.i + 1; TPath (n, ptys p '>')) else TPath (n, [])
  | '(' -> TTuple (ptys p ')')
  | c -> failwith ("bad ty char " ^ String.make 1 c)
and ptys p close =
  if peek p = close then (p.i <- p.i + 1; [])
  else
    let rec go acc = let x = pty p in let acc = x :: acc in if next p = close then List.rev acc else go acc in
    go []
let pmembers p =
  expect p '{';
  if peek p = '}' then (p.i <- p.i + 1; [])
  else
    let rec go acc =
      let k = hexkey p in
      expect p ':';
      let x = pty p in
      let acc = (k, x) :: acc in
      if next p = '}' then List.rev acc else go acc
    in
    go []
let parse_items (s : string) : item list =
  if s = "" || s = "-" then []
  else
    let p = { s; i = 0 } in
    let rec go acc =
      let it =
        match next p with
        | 'A' -> let n = hexkey p in expect p '='; Alias (n, pty p)
        | 'S' -> let n = hexkey p in Struct (n, pmembers p)
        | 'E' -> let n = hexkey p in Enum (n, pmembers p)
        | c -> failwith ("bad item char " ^ String.make 1 c)
      in
      let acc = it :: acc in
      if p.i >= String.length s then List.rev acc else (expect p ';'; go acc)
    in
    go []

let show_opt_shape r = match r with Some s -> "OK " ^ shape_str s | None -> "NONE"

(* inference result handed to compile_json_m:  S<shape> | E | P *)
let infer_arg (a : string) : n list list -> (unit, shape) outcome =
  fun _ ->
    if a = "E" then Err () else if a = "P" then Panic
    else Ok (parse_shape (String.sub a 1 (String.length a - 1)))

let run (op : string) (a : string array) : string =
  match op with
  | "gen_render" -> show_text (gen_text (parse_shape a.(1)))
  | "gen_file" -> show_text (file_text (first_pass (parse_shape a.(1))))
  | "gen_name" -> show_text (shape_name (parse_shape a.(1)))
  | "gen_repr" -> show_text (shape_representation (parse_shape a.(1)))
  | "gen_case" -> (
      let x = arg_text a.(2) in
      match a.(1) with
      | "snake" -> show_text (to_snake x)
      | "pascal" -> show_text (to_pascal x)
      | _ -> "ERR BadOp")
  | "gen_crc" -> show_text (hex_upper (crc32 (arg_text a.(1))))
  | "gen_path" -> show_text (out_path (arg_text a.(1)) (arg_text a.(2)))
  (* post-fix variants (fixes/F14.diff, fixes/F15.diff), see Model/Gen.v *)
  | "gen_path_f14" -> show_text (out_path_f14 (arg_text a.(1)) (arg_text a.(2)))
  | "gen_render_f15" -> show_text (render (first_pass_f15 (parse_shape a.(1))))
  | "gen_macro_path" -> show_text (macro_path (arg_text a.(1)) (arg_text a.(2)))
  | "gen_plain" -> show_bool (plain_dir (arg_text a.(1)) && plain_name (arg_text a.(2)))
  | "gen_compile" ->
      (* gen_compile <hexname> <hexdir|-> <hexcwd> <infer> <write_ok> <hexpath>:<R|X> ... *)
      let name = arg_text a.(1) in
      let out_dir = if a.(2) = "-" then None else Some (text_of_hex a.(2)) in
      let cwd = arg_text a.(3) in
      let srcs =
        List.map (fun s ->
            match String.split_on_char ':' s with
            | [ p; "R" ] -> (arg_text p, Some [])
            | [ p; _ ] -> (arg_text p, None)
            | _ -> failwith "src") (Array.to_list (Array.sub a 6 (Array.length a - 6)))
      in
      let r, tr = compile_json_m (infer_arg a.(4)) cwd out_dir name srcs (a.(5) = "1") in
      let b = Buffer.create 256 in
      (match r with
       | Ok x -> Buffer.add_string b ("RET OK " ^ hex_of_text x)
       | Err CRead -> Buffer.add_string b "RET ERR Read"
       | Err CInfer -> Buffer.add_string b "RET ERR Infer"
       | Err CWrite -> Buffer.add_string b "RET ERR Write"
       | Panic -> Buffer.add_string b "RET PANIC");
      Buffer.add_string b " TRACE";
      List.iter (fun e ->
          match e with
          | EPrint l -> Buffer.add_string b (" P:" ^ hex_of_text l)
          | ERead p -> Buffer.add_string b (" R:" ^ hex_of_text p)
          | EWrite (p, c) -> Buffer.add_string b (" W:" ^ hex_of_text p ^ ":" ^ hex_of_text c)) tr;
      Buffer.add_string b (" NOWRITE " ^ if no_write tr then "1" else "0");
      Buffer.contents b
  (* ---- decidable classes: the SAME predicates the Coq theorems use ---- *)
  | "gen_same_types" -> show_bool (same_types (parse_shape a.(1)) (parse_shape a.(2)))
  | "gen_good" -> show_bool (good_names (parse_shape a.(1)))
  | "gen_decodable" -> show_bool (decodable (parse_shape a.(1)))
  | "gen_serde_ok" -> show_bool (serde_ok (parse_shape a.(1)))
  | "gen_c15class" -> show_bool (c15_class (parse_shape a.(1)))
  | "gen_names_inj" -> show_bool (names_inj (parse_shape a.(1)))
  | "gen_opt_array_ok" -> show_bool (opt_array_ok && opt_array_decodes)
  | "gen_header_ok" -> show_bool (header_ok gen_header)
  | "gen_header_ok_text" -> show_bool (header_ok (arg_text a.(1)))
  | "gen_printable" ->
      let rec keys s = match s with
        | SArray (x, _) -> keys x
        | SObject (c, _) -> List.concat_map (fun (k, v) -> k :: keys v) c
        | SOneOf (l, _) | STuple (l, _) -> List.concat_map keys l
        | _ -> [] in
      show_bool (List.for_all printable_text (keys (parse_shape a.(1))))
  (* ---- well-formedness / decoding, on the model's own items and on parsed real output ---- *)
  | "gen_items" -> "ITEMS " ^ items_str (first_pass (parse_shape a.(1)))
  | "gen_wfm" -> show_bool (wf_module (first_pass (parse_shape a.(1))))
  | "gen_wfi" -> show_bool (wf_items (first_pass (parse_shape a.(1))))
  | "gen_wf_items" -> show_bool (wf_items (parse_items a.(1)))
  | "gen_render_items" -> show_text (render (parse_items a.(1)))
  | "gen_decode" -> show_opt_shape (decode_auto (first_pass (parse_shape a.(1))))
  | "gen_decode_items" -> show_opt_shape (decode_auto (parse_items a.(1)))
  | "gen_erase" -> "OK " ^ shape_str (erase (parse_shape a.(1)))
  (* ---- serde model ---- *)
  | "gen_deser" ->
      let s = parse_shape a.(1) and d = parse_doc a.(2) in
      let its = first_pass s in
      let fuel = nat_of_int (4 * (String.length a.(1) + String.length a.(2)) + 8) in
      (match deser_root fuel its d with
       | Some v -> let d' = reser v in "OK " ^ doc_str d' ^ " APPROX " ^ (if approx d d' then "1" else "0")
       | None -> "FAIL")
  | "gen_deser_items" ->
      let its = parse_items a.(1) and d = parse_doc a.(2) in
      let fuel = nat_of_int (4 * (String.length a.(1) + String.length a.(2)) + 8) in
      (match deser_root fuel its d with
       | Some v -> let d' = reser v in "OK " ^ doc_str d' ^ " APPROX " ^ (if approx d d' then "1" else "0")
       | None -> "FAIL")
  | "gen_approx" -> show_bool (approx (parse_doc a.(1)) (parse_doc a.(2)))
  | _ -> "ERR BadOp"
