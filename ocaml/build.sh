#!/bin/sh
# Extract the model and build the driver into /verif/.cache/ocaml
set -e
here=$(cd "$(dirname "$0")" && pwd)
out=$here/../.cache/ocaml
mkdir -p "$out"
cd "$out"
coqc -Q "$here/../coq" JS "$here/../coq/Extract.v" >/dev/null
cp "$here/driver.ml" "$here/genops.ml" "$here/textref.ml" "$here/textops.ml" .
ocamlfind ocamlopt -O3 -w -a -package str Model.mli Model.ml genops.ml textref.ml textops.ml driver.ml -o driver 2>/dev/null || \
ocamlfind ocamlopt -w -a Model.mli Model.ml genops.ml textref.ml textops.ml driver.ml -o driver
