(* textops.ml — text-level model operations (lexer, parser, CST walk, text API, RFC 8259
   reference recogniser).  Self-contained: the shape printer/parser of driver.ml are passed
   in, so that driver.ml only needs a one-line dispatch. *)
open Model

(* the extracted model may define its own (Coq) string type; restore OCaml's *)
type string = String.t

let rec pos_of_int (i : int) : positive =
  if i = 1 then XH else if i land 1 = 0 then XO (pos_of_int (i lsr 1)) else XI (pos_of_int (i lsr 1))
let n_of_int (i : int) : n = if i = 0 then N0 else Npos (pos_of_int i)
let rec int_of_pos (p : positive) : int =
  match p with XH -> 1 | XO q -> 2 * int_of_pos q | XI q -> (2 * int_of_pos q) + 1
let int_of_n (x : n) : int = match x with N0 -> 0 | Npos p -> int_of_pos p
let int_of_nat (x : nat) : int =
  let rec go x acc = match x with O -> acc | S y -> go y (acc + 1) in go x 0
let rec nat_of_int (i : int) : nat = if i <= 0 then O else S (nat_of_int (i - 1))

let hexdigit c =
  match c with
  | '0' .. '9' -> Char.code c - 48 | 'a' .. 'f' -> Char.code c - 87 | 'A' .. 'F' -> Char.code c - 55
  | _ -> failwith "hex"
let unhex (s : string) : int list =
  List.init (String.length s / 2) (fun i -> (16 * hexdigit s.[2 * i]) + hexdigit s.[(2 * i) + 1])

(* UTF-8 bytes -> Unicode scalar values (the harness only accepts valid UTF-8) *)
let decode_utf8 (b : int list) : int list =
  let rec go b acc =
    match b with
    | [] -> List.rev acc
    | x :: r when x < 0x80 -> go r (x :: acc)
    | x :: y :: r when x < 0xE0 -> go r ((((x land 0x1F) lsl 6) lor (y land 0x3F)) :: acc)
    | x :: y :: z :: r when x < 0xF0 ->
        go r ((((x land 0x0F) lsl 12) lor ((y land 0x3F) lsl 6) lor (z land 0x3F)) :: acc)
    | x :: y :: z :: w :: r ->
        go r ((((x land 0x07) lsl 18) lor ((y land 0x3F) lsl 12) lor ((z land 0x3F) lsl 6) lor (w land 0x3F)) :: acc)
    | _ -> failwith "utf8"
  in
  go b []

let text_of_hex (s : string) : n list = List.map n_of_int (decode_utf8 (unhex s))

let hex_of_chars (cs : n list) : string =
  String.concat "" (List.map (fun b -> Printf.sprintf "%02x" (int_of_n b)) (utf8_encode cs))
let hex_of_string (s : string) : string =
  String.concat "" (List.map (fun c -> Printf.sprintf "%02x" (Char.code c)) (List.init (String.length s) (String.get s)))

let tok_name t =
  match t with
  | TEOF -> "EOF" | TWhitespace -> "Whitespace" | TNewline -> "Newline" | TTrue -> "True"
  | TFalse -> "False" | TNull -> "Null" | TLBrace -> "LBrace" | TRBrace -> "RBrace"
  | TLBrak -> "LBrak" | TRBrak -> "RBrak" | TComma -> "Comma" | TColon -> "Colon"
  | TString -> "String" | TNumber -> "Number" | TError -> "Error"

(* impl fmt::Display for Token *)
let tok_display t =
  match t with
  | TEOF -> "SYSNULL" | TNewline | TWhitespace -> "" | TFalse | TTrue -> "Boolean" | TNull -> "Null"
  | TLBrace -> "{" | TRBrace -> "}" | TLBrak -> "[" | TRBrak -> "]" | TComma -> "," | TColon -> ":"
  | TString -> "String" | TNumber -> "Number" | TError -> "Unknown Error"

let rule_name r =
  match r with
  | RArray -> "array" | RBoolean -> "boolean" | RError -> "error" | RFile -> "file"
  | RLiteral -> "literal" | RMember -> "member" | RObject -> "object" | RValue -> "value"

let cfg_of (a : string array) (i : int) : cfg =
  if Array.length a > i && a.(i) = "fixed" then cfg_fixed
  else if Array.length a > i && a.(i) = "f2" then { f2_honour_diags = true; f3_cr_newline = false }
  else if Array.length a > i && a.(i) = "f3" then { f2_honour_diags = false; f3_cr_newline = true }
  else cfg_now

let show_terr shape_str (e : terr) : string =
  match e with
  | EInvalidJson ((a, b), fr) -> Printf.sprintf "ERR InvalidJson %d %d %s" (int_of_n a) (int_of_n b) (hex_of_chars fr)
  | ETooManyRootNodes k -> Printf.sprintf "ERR TooManyRootNodes %d" (int_of_nat k)
  | EInvalidType None -> "ERR InvalidType " ^ hex_of_string "Empty"
  | EInvalidType (Some t) -> "ERR InvalidType " ^ hex_of_string (tok_display t)
  | EInvalidObjectKey -> "ERR InvalidObjectKey"
  | EInvalidObjectValue -> "ERR InvalidObjectValue"
  | EDupConflict (x, y) -> "ERR DupConflict " ^ shape_str x ^ " " ^ shape_str y
  | EUnknown -> "ERR Unknown"
  | EEmptyFile -> "ERR EmptyFile"
  | EFuel -> "FUEL"

let show_tout shape_str (r : (terr, shape) outcome) : string =
  match r with Ok s -> "OK " ^ shape_str s | Err e -> show_terr shape_str e | Panic -> "PANIC"

let show_tbool shape_str (r : (terr, bool) outcome) : string =
  match r with Ok b -> if b then "BOOL 1" else "BOOL 0" | Err e -> show_terr shape_str e | Panic -> "PANIC"

let show_bool b = if b then "BOOL 1" else "BOOL 0"

(* canonical CST dump: preorder, "depth:name:start:end", through the model's own
   children / cst_span (so those are exercised by the comparison) *)
let dump_cst (c : cst) : string =
  let b = Buffer.create 256 in
  let rec go (i : nat) (depth : int) =
    let sp = match cst_span c i with Ok (x, y) -> Printf.sprintf "%d:%d" (int_of_n x) (int_of_n y) | _ -> "PANIC" in
    (match cst_get c i with
     | Ok (NRule (r, _)) ->
         Buffer.add_string b (Printf.sprintf " %d:%s:%s" depth (rule_name r) sp);
         (match children c i with
          | Ok ks -> List.iter (fun k -> go k (depth + 1)) ks
          | _ -> Buffer.add_string b " PANIC")
     | Ok (NTok (t, _)) -> Buffer.add_string b (Printf.sprintf " %d:%s:%s" depth (tok_name t) sp)
     | _ -> Buffer.add_string b " PANIC")
  in
  go O 0;
  Buffer.contents b

let run shape_str parse_shape parse_doc (op : string) (a : string array) : string option =
  match op with
  | "tokens" ->
      let lx = lex (cfg_of a 2) (text_of_hex a.(1)) in
      (match lx.l_status with
       | LPanic -> Some "PANIC"
       | LFuel -> Some "FUEL"
       | LDone ->
           let b = Buffer.create 128 in
           Buffer.add_string b (Printf.sprintf "TOKS %d" (List.length lx.l_diags));
           List.iter (fun (t, (x, y)) ->
               Buffer.add_string b (Printf.sprintf " %s:%d:%d" (tok_name t) (int_of_n x) (int_of_n y)))
             lx.l_toks;
           Some (Buffer.contents b))
  | "parse" ->
      let lx, pr = parse_text (cfg_of a 2) (text_of_hex a.(1)) in
      (match lx.l_status, pr.pr_status with
       | LPanic, _ | _, PPanic -> Some "PANIC"
       | LFuel, _ | _, PFuel -> Some "FUEL"
       | _ -> Some (Printf.sprintf "CST %d%s" (List.length pr.pr_diags) (dump_cst pr.pr_cst)))
  | "cstraw" ->   (* model only: flat vector, token_count, non_skip_len *)
      let _, pr = parse_text (cfg_of a 2) (text_of_hex a.(1)) in
      let c = pr.pr_cst in
      Some (Printf.sprintf "RAW %d %d %s" (int_of_nat c.c_tcount) (int_of_nat c.c_nonskip)
              (String.concat " " (List.map (fun nd -> match nd with
                 | NRule (r, o) -> Printf.sprintf "%s+%d" (rule_name r) (int_of_nat o)
                 | NTok (t, i) -> Printf.sprintf "%s#%d" (tok_name t) (int_of_nat i)) c.c_nodes)))
  | "diags" ->    (* model only: the diagnostics' ranges *)
      let _, pr = parse_text (cfg_of a 2) (text_of_hex a.(1)) in
      Some ("DIAGS" ^ String.concat "" (List.map (fun (k, (x, y)) ->
          Printf.sprintf " %s:%d:%d"
            (match k with DInvalid -> "invalid" | DUnterminated -> "unterminated" | DEscape -> "escape"
                        | DUnicode -> "unicode" | DCtrl -> "ctrl" | DNesting -> "nesting" | DSyntax -> "syntax")
            (int_of_n x) (int_of_n y)) pr.pr_diags))
  | "from_str" -> Some (show_tout shape_str (from_str_m (cfg_of a 2) (text_of_hex a.(1))))
  | "depth_walk" ->
      (* frames of parse_cst/parse_rule/parse_member/parse_token simultaneously active (Model/Depth.v) *)
      let src = text_of_hex a.(1) in
      let (_, pr) = parse_text cfg_now src in
      Some (Printf.sprintf "D %d" (int_of_nat (walk_depth pr.pr_cst src)))
  | "depth_value" -> Some (Printf.sprintf "D %d" (int_of_nat (value_depth (parse_doc a.(1)))))
  | "from_sources_text" ->
      Some (show_tout shape_str (from_sources_m cfg_now (List.map text_of_hex (List.tl (Array.to_list a)))))
  | "superset_text" -> Some (show_tbool shape_str (is_superset_m cfg_now (parse_shape a.(1)) (text_of_hex a.(2))))
  | "superset_checked_text" ->
      Some (show_tbool shape_str (is_superset_checked_m cfg_now (parse_shape a.(1)) (text_of_hex a.(2))))
  | _ -> Textref.run shape_str parse_shape text_of_hex hex_of_chars parse_doc op a
