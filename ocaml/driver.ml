(* driver.ml — runs the extracted Coq model on the case lines of DESIGN.md appendix A.4.
   One case per input line (op TAB arg TAB ...), one canonical result line per case. *)
open Model

(* the extracted model defines its own (Coq) string type; restore OCaml's *)
type string = String.t

(* ---- N <-> int (extracted N is a datatype; no Extract Constant is used) ---- *)
let rec pos_of_int (i : int) : positive =
  if i = 1 then XH
  else if i land 1 = 0 then XO (pos_of_int (i lsr 1))
  else XI (pos_of_int (i lsr 1))

let n_of_int (i : int) : n = if i = 0 then N0 else Npos (pos_of_int i)

let rec int_of_pos (p : positive) : int =
  match p with XH -> 1 | XO q -> 2 * int_of_pos q | XI q -> (2 * int_of_pos q) + 1

let int_of_n (x : n) : int = match x with N0 -> 0 | Npos p -> int_of_pos p
let rec int_of_nat (x : nat) : int = match x with O -> 0 | S y -> 1 + int_of_nat y

(* ---- hex ---- *)
let hexdigit c =
  match c with
  | '0' .. '9' -> Char.code c - 48
  | 'a' .. 'f' -> Char.code c - 87
  | 'A' .. 'F' -> Char.code c - 55
  | _ -> failwith "hex"

let is_hex c = match c with '0' .. '9' | 'a' .. 'f' | 'A' .. 'F' -> true | _ -> false

let unhex (s : string) : int list =
  let n = String.length s / 2 in
  List.init n (fun i -> (16 * hexdigit s.[2 * i]) + hexdigit s.[(2 * i) + 1])

let hex_of_ints (l : int list) : string =
  String.concat "" (List.map (fun b -> Printf.sprintf "%02x" b) l)

let key_of_hex s : key = List.map n_of_int (unhex s)
let hex_of_key (k : key) = hex_of_ints (List.map int_of_n k)

(* ---- printer ---- *)
let flag o = if o then "1" else "0"

let rec show (b : Buffer.t) (s : shape) : unit =
  match s with
  | SNull -> Buffer.add_char b 'N'
  | SBool o -> Buffer.add_string b ("B" ^ flag o)
  | SNumber o -> Buffer.add_string b ("#" ^ flag o)
  | SString o -> Buffer.add_string b ("S" ^ flag o)
  | SArray (t, o) ->
      Buffer.add_string b ("A" ^ flag o ^ "(");
      show b t;
      Buffer.add_char b ')'
  | STuple (es, o) ->
      Buffer.add_string b ("T" ^ flag o ^ "(");
      List.iteri (fun i e -> if i > 0 then Buffer.add_char b ','; show b e) es;
      Buffer.add_char b ')'
  | SOneOf (vs, o) ->
      Buffer.add_string b ("U" ^ flag o ^ "[");
      List.iteri (fun i e -> if i > 0 then Buffer.add_char b '|'; show b e) vs;
      Buffer.add_char b ']'
  | SObject (c, o) ->
      Buffer.add_string b ("O" ^ flag o ^ "{");
      List.iteri
        (fun i (k, v) ->
          if i > 0 then Buffer.add_char b ',';
          Buffer.add_string b (hex_of_key k);
          Buffer.add_char b ':';
          show b v)
        c;
      Buffer.add_char b '}'

let shape_str s =
  let b = Buffer.create 64 in
  show b s;
  Buffer.contents b

(* ---- parser (shapes are rebuilt through the model's own insert, like the harness
        rebuilds BTreeSet/BTreeMap) ---- *)
type st = { s : string; mutable i : int }

let peek p = if p.i < String.length p.s then p.s.[p.i] else '\000'
let next p = let c = peek p in p.i <- p.i + 1; c
let pflag p = next p = '1'

let hexkey p =
  let st = p.i in
  while is_hex (peek p) do p.i <- p.i + 1 done;
  key_of_hex (String.sub p.s st (p.i - st))

let expect p c = if next p <> c then failwith ("expected " ^ String.make 1 c)

let rec pshape p : shape =
  match next p with
  | 'N' -> SNull
  | 'B' -> SBool (pflag p)
  | '#' -> SNumber (pflag p)
  | 'S' -> SString (pflag p)
  | 'A' ->
      let o = pflag p in
      expect p '(';
      let t = pshape p in
      expect p ')';
      SArray (t, o)
  | 'T' ->
      let o = pflag p in
      expect p '(';
      let es = plist p ')' ',' in
      STuple (es, o)
  | 'U' ->
      let o = pflag p in
      expect p '[';
      let es = plist p ']' '|' in
      SOneOf (List.fold_left (fun acc x -> sset_insert x acc) [] es, o)
  | 'O' ->
      let o = pflag p in
      expect p '{';
      let c =
        if peek p = '}' then (p.i <- p.i + 1; [])
        else
          let rec go acc =
            let k = hexkey p in
            expect p ':';
            let v = pshape p in
            let acc = map_insert k v acc in
            if next p = '}' then acc else go acc
          in
          go []
      in
      SObject (c, o)
  | c -> failwith ("bad shape char " ^ String.make 1 c)

and plist p close _sep : shape list =
  if peek p = close then (p.i <- p.i + 1; [])
  else
    let rec go acc =
      let x = pshape p in
      let acc = x :: acc in
      if next p = close then List.rev acc else go acc
    in
    go []

let rec pdoc p : json =
  match next p with
  | 'n' -> JNull
  | 't' -> JBool
  | '1' -> JNum
  | 's' -> JStr
  | '[' ->
      if peek p = ']' then (p.i <- p.i + 1; JArr [])
      else
        let rec go acc =
          let x = pdoc p in
          let acc = x :: acc in
          if next p = ']' then List.rev acc else go acc
        in
        JArr (go [])
  | '{' ->
      if peek p = '}' then (p.i <- p.i + 1; JObj [])
      else
        let rec go acc =
          let k = hexkey p in
          expect p ':';
          let v = pdoc p in
          let acc = (k, v) :: acc in
          if next p = '}' then List.rev acc else go acc
        in
        JObj (go [])
  | c -> failwith ("bad doc char " ^ String.make 1 c)

let parse_shape s =
  let p = { s; i = 0 } in
  let r = pshape p in
  if p.i <> String.length s then failwith "trailing shape input";
  r

let parse_doc s =
  let p = { s; i = 0 } in
  let r = pdoc p in
  if p.i <> String.length s then failwith "trailing doc input";
  r

(* ---- results ---- *)
let show_bool b = if b then "BOOL 1" else "BOOL 0"

let show_ierr e =
  match e with
  | DupConflict (a, b) -> "ERR DupConflict " ^ shape_str a ^ " " ^ shape_str b

let show_infer (r : (ierr, shape) outcome) =
  match r with Ok s -> "OK " ^ shape_str s | Err e -> show_ierr e | Panic -> "PANIC"

let show_cmp c = match c with Lt -> "CMP Lt" | Eq -> "CMP Eq" | Gt -> "CMP Gt"

(* from_sources at tree level: parse every source in order (first error wins), then merge *)
let from_sources_tree (ds : json list) : string =
  let rec go ds acc =
    match ds with
    | [] -> (
        match merge (List.rev acc) with
        | Ok s -> "OK " ^ shape_str s
        | Err EmptyFile -> "ERR EmptyFile"
      | Err CannotMerge -> "ERR CannotMerge"
        | Err CannotMerge -> "ERR CannotMerge"
        | Panic -> "PANIC")
    | d :: r -> (
        match infer_text d with
        | Ok s -> go r (s :: acc)
        | Err e -> show_ierr e
        | Panic -> "PANIC")
  in
  go ds []

let run (line : string) : string =
  let a = Array.of_list (String.split_on_char '\t' line) in
  match a.(0) with
  | "subset" -> show_bool (is_subset (parse_shape a.(1)) (parse_shape a.(2)))
  | "similar" -> (
      match similar (parse_shape a.(1)) (parse_shape a.(2)) with
      | Some s -> "OK " ^ shape_str s
      | None -> "NONE")
  | "isopt" -> show_bool (is_optional (parse_shape a.(1)))
  | "merger" -> "OK " ^ shape_str (merger (parse_shape a.(1)) (parse_shape a.(2)))
  | "merge" -> (
      let vs = List.map parse_shape (List.tl (Array.to_list a)) in
      match merge vs with
      | Ok s -> "OK " ^ shape_str s
      | Err EmptyFile -> "ERR EmptyFile"
      | Err CannotMerge -> "ERR CannotMerge"
        | Err CannotMerge -> "ERR CannotMerge"
      | Panic -> "PANIC")
  | "infer_text" -> show_infer (infer_text (parse_doc a.(1)))
  | "infer_value" -> show_infer (infer_value (parse_doc a.(1)))
  | "from_sources" -> from_sources_tree (List.map parse_doc (List.tl (Array.to_list a)))
  | "superset" -> (
      match infer_text (parse_doc a.(2)) with
      | Ok s -> show_bool (is_subset s (parse_shape a.(1)))
      | Err _ -> show_bool false
      | Panic -> "PANIC")
  | "superset_checked" -> (
      match infer_text (parse_doc a.(2)) with
      | Ok s -> show_bool (is_subset s (parse_shape a.(1)))
      | Err e -> show_ierr e
      | Panic -> "PANIC")
  (* ---- model-only oracle ops ---- *)
  | "mem" -> show_bool (mem (parse_doc a.(1)) (parse_shape a.(2)))
  | "cmp" -> show_cmp (cmp (parse_shape a.(1)) (parse_shape a.(2)))
  | "wf" -> show_bool (wf (parse_shape a.(1)))
  | "counts" -> (
      match a.(1) with
      | "subset" ->
          let _, n = subset_c (parse_shape a.(2)) (parse_shape a.(3)) in
          Printf.sprintf "CNT 0 0 0 %d" (int_of_nat n)
      | "merger" ->
          let m, s = merger_c (parse_shape a.(2)) (parse_shape a.(3)) in
          Printf.sprintf "CNT 0 0 %d %d" (int_of_nat m) (int_of_nat s)
      | "infer_text" -> (
          match infer_text (parse_doc a.(2)) with
          | Ok _ -> Printf.sprintf "CNT 0 %d 0 0" (int_of_nat (calls_infer (parse_doc a.(2))))
          | _ -> "CNT error")
      | "infer_value" -> Printf.sprintf "CNT %d 0 0 0" (int_of_nat (calls_infer (parse_doc a.(2))))
      | _ -> "ERR BadOp")
  | "size" -> Printf.sprintf "N %d" (int_of_nat (size (parse_shape a.(1))))
  | "display" -> "TEXT " ^ hex_of_ints (List.map int_of_n (display (parse_shape a.(1))))
  | "ser" -> "TEXT " ^ hex_of_ints (List.map int_of_n (ser_text (parse_shape a.(1))))
  | "roundtrip" -> (
      match de (ser (parse_shape a.(1))) with Some s -> "OK " ^ shape_str s | None -> "ERR De")
  | "ident_keys" -> show_bool (ident_keys (parse_shape a.(1)))
  | "no_null_array" -> show_bool (no_null_array (parse_shape a.(1)))
  | "oneof_free" -> show_bool (oneof_free (parse_shape a.(1)))
  | "scalar_oneofs" -> show_bool (scalar_oneofs (parse_shape a.(1)))
  | "nodup" -> show_bool (nodup_keys (parse_doc a.(1)))
  | "conflict_free" -> show_bool (conflict_free (parse_doc a.(1)))
  (* ---- text level (ocaml/textops.ml) ---- *)
  | op -> (match Textops.run shape_str parse_shape parse_doc op a with Some r -> r | None -> Genops.run op a)

let () =
  try
    while true do
      let line = input_line stdin in
      if line <> "" then
        print_endline (try run line with Failure m -> "ERR Driver " ^ m | Not_found -> "ERR Driver nf"
                                         | Invalid_argument m -> "ERR Driver " ^ m)
    done
  with End_of_file -> ()
