(* textref.ml — model-only oracle operations of the text level: the RFC 8259 reference
   recogniser (Model/JsonRef.v), depth, duplicate consistency, known-class predicates,
   the renderer.  Helpers are passed in by textops.ml. *)
open Model

(* the extracted model may define its own (Coq) string type; restore OCaml's *)
type string = String.t

let rec int_of_pos (p : positive) : int =
  match p with XH -> 1 | XO q -> 2 * int_of_pos q | XI q -> (2 * int_of_pos q) + 1
let int_of_n (x : n) : int = match x with N0 -> 0 | Npos p -> int_of_pos p
let int_of_nat (x : nat) : int =
  let rec go x acc = match x with O -> acc | S y -> go y (acc + 1) in go x 0
let rec nat_of_int (i : int) : nat = if i <= 0 then O else S (nat_of_int (i - 1))

let rec doc_str (b : Buffer.t) (d : json) : unit =
  match d with
  | JNull -> Buffer.add_char b 'n'
  | JBool -> Buffer.add_char b 't'
  | JNum -> Buffer.add_char b '1'
  | JStr -> Buffer.add_char b 's'
  | JArr l ->
      Buffer.add_char b '[';
      List.iteri (fun i e -> if i > 0 then Buffer.add_char b ','; doc_str b e) l;
      Buffer.add_char b ']'
  | JObj m ->
      Buffer.add_char b '{';
      List.iteri (fun i (k, v) ->
          if i > 0 then Buffer.add_char b ',';
          List.iter (fun x -> Buffer.add_string b (Printf.sprintf "%02x" (int_of_n x))) k;
          Buffer.add_char b ':';
          doc_str b v) m;
      Buffer.add_char b '}'

let show_bool b = if b then "BOOL 1" else "BOOL 0"

let cfg_of (a : string array) (i : int) : cfg =
  if Array.length a > i && a.(i) = "fixed" then cfg_fixed
  else if Array.length a > i && a.(i) = "f2" then { f2_honour_diags = true; f3_cr_newline = false }
  else if Array.length a > i && a.(i) = "f3" then { f2_honour_diags = false; f3_cr_newline = true }
  else cfg_now

let run _shape_str _parse_shape text_of_hex hex_of_chars parse_doc (op : string) (a : string array) : string option =
  match op with
  | "ref_json" -> (
      match ref_json (text_of_hex a.(1)) with
      | None -> Some "REF NONE"
      | Some d ->
          let b = Buffer.create 64 in
          doc_str b d;
          Some (Printf.sprintf "REF %d %d %s" (int_of_nat (jdepth d)) (if dup_consistent d then 1 else 0) (Buffer.contents b)))
  | "ref_accepts" -> Some (show_bool (ref_accepts (text_of_hex a.(1))))
  | "bare_cr" -> Some (show_bool (has_bare_cr (text_of_hex a.(1))))
  | "accepts" -> Some (show_bool (accepts (cfg_of a 2) (text_of_hex a.(1))))
  | "ndiags" -> Some (Printf.sprintf "N %d" (int_of_nat (ndiags (cfg_of a 2) (text_of_hex a.(1)))))
  | "diag_dropped" -> Some (show_bool (diag_dropped (text_of_hex a.(1))))
  | "cr_rejected" -> Some (show_bool (cr_rejected (text_of_hex a.(1))))
  | "c04" ->   (* everything the C04 oracle needs about one text, in one pass *)
      let t = text_of_hex a.(1) in
      let r = match ref_json t with
        | None -> "NONE"
        | Some d -> Printf.sprintf "%d:%d" (int_of_nat (jdepth d)) (if dup_consistent d then 1 else 0) in
      Some (Printf.sprintf "C04 ref=%s expect=%d fixed=%d dropped=%d cr=%d" r
              (if ref_accepts t then 1 else 0) (if accepts cfg_fixed t then 1 else 0)
              (if diag_dropped t then 1 else 0) (if cr_rejected t then 1 else 0))
  | "dup_consistent" -> Some (show_bool (dup_consistent (parse_doc a.(1))))
  | "depth" -> Some (Printf.sprintf "N %d" (int_of_nat (jdepth (parse_doc a.(1)))))
  | "vcalls" -> Some (Printf.sprintf "N %d" (int_of_n (vcalls (parse_doc a.(1)))))
  | "jnodes" -> Some (Printf.sprintf "N %d" (int_of_n (jnodes (parse_doc a.(1)))))
  | "value_cost_excess" -> Some (show_bool (value_cost_excess (parse_doc a.(1))))
  | "render" ->
      let ch = if Array.length a > 2 && a.(2) <> "" then List.map (fun s -> nat_of_int (int_of_string s)) (String.split_on_char ',' a.(2)) else [] in
      Some ("TEXT " ^ hex_of_chars (render_text ch (parse_doc a.(1))))
  | _ -> None
