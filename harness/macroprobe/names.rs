// collection names probed (shared by build.rs and src/main.rs; keep in step with the p! list in main.rs)
#[allow(dead_code)]
const NAMES: &[&str] = &["collection", "a.b", "x.json", ".hidden", "a b", "v1.2.3", "é", "name.", "helloworld", "a-b_c", "UPPER.Case"];
