//! Prints, per probe name, `<name-hex>\t<path-hex>` where path is what `include_json_shape!(name)`
//! hands to `include!`, relative to OUT_DIR (prefix `$OUT` when it starts with OUT_DIR, else the raw string).
#![allow(unused, non_camel_case_types, non_snake_case)]
include!("../names.rs");

#[cfg(not(feature = "real"))]
macro_rules! p {
    ($m:ident, $name:tt) => {
        mod $m {
            // textual scope beats the prelude: the `include!` inside the expansion is this one
            macro_rules! include {
                ($e:expr) => {
                    pub const READS: &str = $e;
                };
            }
            json_shape_build::include_json_shape!($name);
        }
    };
}

#[cfg(feature = "real")]
macro_rules! p {
    ($m:ident, $name:tt) => {
        mod $m {
            json_shape_build::include_json_shape!($name);
            pub const READS: &str = "";
        }
    };
}

p!(p0, "collection");
p!(p1, "a.b");
p!(p2, "x.json");
p!(p3, ".hidden");
p!(p4, "a b");
p!(p5, "v1.2.3");
p!(p6, "é");
p!(p7, "name.");
p!(p8, "helloworld");
p!(p9, "a-b_c");
p!(p10, "UPPER.Case");

fn hex(s: &str) -> String {
    s.bytes().map(|b| format!("{b:02x}")).collect()
}

fn main() {
    let reads = [p0::READS, p1::READS, p2::READS, p3::READS, p4::READS, p5::READS, p6::READS, p7::READS, p8::READS, p9::READS, p10::READS];
    assert_eq!(reads.len(), NAMES.len());
    let out = env!("OUT_DIR");
    if cfg!(feature = "real") {
        println!("REAL-OK {}", NAMES.len());
        return;
    }
    for (n, r) in NAMES.iter().zip(reads) {
        let rel = match r.strip_prefix(out) {
            Some(rest) => format!("$OUT{rest}"),
            None => r.to_string(),
        };
        println!("{}\t{}", hex(n), hex(&rel));
    }
}
