// With feature `real`: compile one small collection per probe name into OUT_DIR (what a user's
// build.rs does).  Without it: nothing (cargo still sets OUT_DIR because a build script exists).
include!("names.rs");

fn main() {
    println!("cargo:rerun-if-changed=build.rs");
    println!("cargo:rerun-if-changed=names.rs");
    if std::env::var_os("CARGO_FEATURE_REAL").is_none() {
        return;
    }
    let out = std::path::PathBuf::from(std::env::var_os("OUT_DIR").unwrap());
    // no stale output of an earlier build may stand in for what compile_json writes now
    for e in std::fs::read_dir(&out).unwrap().flatten() {
        if e.path().extension().is_some_and(|x| x == "rs") {
            let _ = std::fs::remove_file(e.path());
        }
    }
    let src = out.join("probe_source.json");
    std::fs::write(&src, r#"{"id":1,"tags":["a","b"],"inner":{"ok":true,"score":null}}"#).unwrap();
    let src2 = out.join("probe_source2.json");
    std::fs::write(&src2, r#"{"id":2,"tags":["c"],"inner":{"ok":false,"score":1.5}}"#).unwrap();
    for name in NAMES {
        json_shape_build::compile_json(name, &[src.clone(), src2.clone()]).unwrap();
    }
}
