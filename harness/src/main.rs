//! Correspondence harness: reads one case per line on stdin (`op TAB arg TAB ...`), runs the
//! real json_shape / json_shape_build code (built from /repo's working tree, hooks on) and
//! prints one canonical result line per case. See DESIGN.md appendix A.4.
use std::collections::{BTreeMap, BTreeSet};
use std::fmt::Write as _;
use std::io::{BufRead, Write};
use std::panic::{AssertUnwindSafe, catch_unwind};
use std::str::FromStr;

use json_shape::{IsSubset, JsonShape, Similar, error::Error};

mod genops;

/// Counting allocator: number of heap allocations (C12's operation count).
struct Counting;
static ALLOCS: std::sync::atomic::AtomicU64 = std::sync::atomic::AtomicU64::new(0);
unsafe impl std::alloc::GlobalAlloc for Counting {
    unsafe fn alloc(&self, l: std::alloc::Layout) -> *mut u8 {
        ALLOCS.fetch_add(1, std::sync::atomic::Ordering::Relaxed);
        unsafe { std::alloc::System.alloc(l) }
    }
    unsafe fn dealloc(&self, p: *mut u8, l: std::alloc::Layout) {
        unsafe { std::alloc::System.dealloc(p, l) }
    }
    unsafe fn realloc(&self, p: *mut u8, l: std::alloc::Layout, n: usize) -> *mut u8 {
        ALLOCS.fetch_add(1, std::sync::atomic::Ordering::Relaxed);
        unsafe { std::alloc::System.realloc(p, l, n) }
    }
}
#[global_allocator]
static GLOBAL: Counting = Counting;
fn allocs() -> u64 {
    ALLOCS.load(std::sync::atomic::Ordering::Relaxed)
}

// ---------------------------------------------------------------- shapes: compact syntax
pub fn hex(bytes: &[u8]) -> String {
    let mut s = String::with_capacity(bytes.len() * 2);
    for b in bytes {
        let _ = write!(s, "{b:02x}");
    }
    s
}

pub fn unhex(s: &str) -> Vec<u8> {
    (0..s.len() / 2)
        .map(|i| u8::from_str_radix(&s[2 * i..2 * i + 2], 16).unwrap())
        .collect()
}

fn flag(o: bool) -> char {
    if o { '1' } else { '0' }
}

pub fn show(s: &JsonShape, out: &mut String) {
    match s {
        JsonShape::Null => out.push('N'),
        JsonShape::Bool { optional } => {
            out.push('B');
            out.push(flag(*optional));
        }
        JsonShape::Number { optional } => {
            out.push('#');
            out.push(flag(*optional));
        }
        JsonShape::String { optional } => {
            out.push('S');
            out.push(flag(*optional));
        }
        JsonShape::Array { r#type, optional } => {
            out.push('A');
            out.push(flag(*optional));
            out.push('(');
            show(r#type, out);
            out.push(')');
        }
        JsonShape::Tuple { elements, optional } => {
            out.push('T');
            out.push(flag(*optional));
            out.push('(');
            for (i, e) in elements.iter().enumerate() {
                if i > 0 {
                    out.push(',');
                }
                show(e, out);
            }
            out.push(')');
        }
        JsonShape::OneOf { variants, optional } => {
            out.push('U');
            out.push(flag(*optional));
            out.push('[');
            for (i, e) in variants.iter().enumerate() {
                if i > 0 {
                    out.push('|');
                }
                show(e, out);
            }
            out.push(']');
        }
        JsonShape::Object { content, optional } => {
            out.push('O');
            out.push(flag(*optional));
            out.push('{');
            for (i, (k, v)) in content.iter().enumerate() {
                if i > 0 {
                    out.push(',');
                }
                out.push_str(&hex(k.as_bytes()));
                out.push(':');
                show(v, out);
            }
            out.push('}');
        }
    }
}

pub fn shape_str(s: &JsonShape) -> String {
    let mut o = String::new();
    show(s, &mut o);
    o
}

pub struct P<'a> {
    pub b: &'a [u8],
    pub i: usize,
}

impl P<'_> {
    fn peek(&self) -> u8 {
        *self.b.get(self.i).unwrap_or(&0)
    }
    fn next(&mut self) -> u8 {
        let c = self.peek();
        self.i += 1;
        c
    }
    fn flag(&mut self) -> bool {
        self.next() == b'1'
    }
    fn hexkey(&mut self) -> String {
        let st = self.i;
        while self.peek().is_ascii_hexdigit() {
            self.i += 1;
        }
        let raw = unhex(std::str::from_utf8(&self.b[st..self.i]).unwrap());
        String::from_utf8(raw).expect("keys must be UTF-8")
    }
    pub fn shape(&mut self) -> JsonShape {
        match self.next() {
            b'N' => JsonShape::Null,
            b'B' => JsonShape::Bool { optional: self.flag() },
            b'#' => JsonShape::Number { optional: self.flag() },
            b'S' => JsonShape::String { optional: self.flag() },
            b'A' => {
                let optional = self.flag();
                assert_eq!(self.next(), b'(');
                let t = self.shape();
                assert_eq!(self.next(), b')');
                JsonShape::Array { r#type: Box::new(t), optional }
            }
            b'T' => {
                let optional = self.flag();
                assert_eq!(self.next(), b'(');
                let mut elements = Vec::new();
                if self.peek() == b')' {
                    self.i += 1;
                } else {
                    loop {
                        elements.push(self.shape());
                        if self.next() == b')' {
                            break;
                        }
                    }
                }
                JsonShape::Tuple { elements, optional }
            }
            b'U' => {
                let optional = self.flag();
                assert_eq!(self.next(), b'[');
                let mut variants = BTreeSet::new();
                if self.peek() == b']' {
                    self.i += 1;
                } else {
                    loop {
                        variants.insert(self.shape());
                        if self.next() == b']' {
                            break;
                        }
                    }
                }
                JsonShape::OneOf { variants, optional }
            }
            b'O' => {
                let optional = self.flag();
                assert_eq!(self.next(), b'{');
                let mut content = BTreeMap::new();
                if self.peek() == b'}' {
                    self.i += 1;
                } else {
                    loop {
                        let k = self.hexkey();
                        assert_eq!(self.next(), b':');
                        let v = self.shape();
                        content.insert(k, v);
                        if self.next() == b'}' {
                            break;
                        }
                    }
                }
                JsonShape::Object { content, optional }
            }
            c => panic!("bad shape char {c}"),
        }
    }
    /// document in compact syntax -> canonical JSON text
    pub fn doc(&mut self, out: &mut String) {
        match self.next() {
            b'n' => out.push_str("null"),
            b't' => out.push_str("true"),
            b'1' => out.push('1'),
            b's' => out.push_str("\"s\""),
            b'[' => {
                out.push('[');
                if self.peek() == b']' {
                    self.i += 1;
                } else {
                    loop {
                        self.doc(out);
                        if self.next() == b']' {
                            break;
                        }
                        out.push(',');
                    }
                }
                out.push(']');
            }
            b'{' => {
                out.push('{');
                if self.peek() == b'}' {
                    self.i += 1;
                } else {
                    loop {
                        let k = self.hexkey();
                        out.push('"');
                        out.push_str(&k);
                        out.push('"');
                        assert_eq!(self.next(), b':');
                        out.push(':');
                        self.doc(out);
                        if self.next() == b'}' {
                            break;
                        }
                        out.push(',');
                    }
                }
                out.push('}');
            }
            c => panic!("bad doc char {c}"),
        }
    }
}

pub fn parse_shape(s: &str) -> JsonShape {
    let mut p = P { b: s.as_bytes(), i: 0 };
    let r = p.shape();
    assert_eq!(p.i, s.len(), "trailing input in shape {s}");
    r
}

pub fn doc_text(s: &str) -> String {
    let mut p = P { b: s.as_bytes(), i: 0 };
    let mut out = String::new();
    p.doc(&mut out);
    assert_eq!(p.i, s.len(), "trailing input in doc {s}");
    out
}

fn text_arg(s: &str) -> String {
    String::from_utf8(unhex(s)).expect("text args must be UTF-8")
}

// ---------------------------------------------------------------- results
fn show_err(e: &Error) -> String {
    match e {
        Error::Unknown => "ERR Unknown".into(),
        Error::EmptyFile => "ERR EmptyFile".into(),
        Error::InvalidJson { value, span } => {
            format!("ERR InvalidJson {} {} {}", span.start, span.end, hex(value.as_bytes()))
        }
        Error::TooManyRootNodes(n) => format!("ERR TooManyRootNodes {n}"),
        Error::InvalidType(s) => format!("ERR InvalidType {}", hex(s.as_bytes())),
        Error::InvalidObjectKey => "ERR InvalidObjectKey".into(),
        Error::InvalidObjectValue => "ERR InvalidObjectValue".into(),
        Error::InvalidObjectValueType(a, b) => {
            format!("ERR DupConflict {} {}", shape_str(a), shape_str(b))
        }
        Error::CannotMerge(a, b) => format!("ERR CannotMerge {} {}", shape_str(a), shape_str(b)),
    }
}

fn show_res(r: &Result<JsonShape, Error>) -> String {
    match r {
        Ok(s) => format!("OK {}", shape_str(s)),
        Err(e) => show_err(e),
    }
}

fn show_bool(b: bool) -> String {
    format!("BOOL {}", u8::from(b))
}

// ---------------------------------------------------------------- ops
fn run(line: &str) -> String {
    let a: Vec<&str> = line.split('\t').collect();
    match a[0] {
        "subset" => show_bool(parse_shape(a[1]).is_subset(&parse_shape(a[2]))),
        "similar" => match parse_shape(a[1]).similar(&parse_shape(a[2])) {
            Some(s) => format!("OK {}", shape_str(&s)),
            None => "NONE".into(),
        },
        "isopt" => show_bool(parse_shape(a[1]).is_optional()),
        "merger" => show_res(&json_shape::verif_hooks::merger(
            parse_shape(a[1]),
            parse_shape(a[2]),
        )),
        "merge" => {
            let v: Vec<JsonShape> = a[1..].iter().map(|s| parse_shape(s)).collect();
            show_res(&json_shape::verif_hooks::merge(&v))
        }
        "infer_text" => show_res(&JsonShape::from_str(&doc_text(a[1]))),
        "infer_value" => {
            let v: serde_json::Value = serde_json::from_str(&doc_text(a[1])).unwrap();
            let s1 = JsonShape::from(&v);
            let vis = json_shape::serde::JsonVisitor::from(&v);
            let s2 = JsonShape::from(v.clone());
            if vis.shape() != &s1 || vis.value() != &v || s2 != s1 {
                return "ERR VisitorMismatch".into();
            }
            format!("OK {}", shape_str(&s1))
        }
        "from_sources" => {
            let v: Vec<String> = a[1..].iter().map(|s| doc_text(s)).collect();
            show_res(&JsonShape::from_sources(&v))
        }
        "superset" => show_bool(parse_shape(a[1]).is_superset(&doc_text(a[2]))),
        "superset_checked" => match parse_shape(a[1]).is_superset_checked(&doc_text(a[2])) {
            Ok(b) => show_bool(b),
            Err(e) => show_err(&e),
        },
        // ---- text level
        "from_str" => show_res(&JsonShape::from_str(&text_arg(a[1]))),
        "from_sources_text" => {
            let v: Vec<String> = a[1..].iter().map(|s| text_arg(s)).collect();
            show_res(&JsonShape::from_sources(&v))
        }
        "superset_text" => show_bool(parse_shape(a[1]).is_superset(&text_arg(a[2]))),
        "superset_checked_text" => match parse_shape(a[1]).is_superset_checked(&text_arg(a[2])) {
            Ok(b) => show_bool(b),
            Err(e) => show_err(&e),
        },
        "serde_ok" => show_bool(serde_json::from_str::<serde_json::Value>(&text_arg(a[1])).is_ok()),
        "from_value_text" => match serde_json::from_str::<serde_json::Value>(&text_arg(a[1])) {
            Ok(v) => format!("OK {}", shape_str(&JsonShape::from(&v))),
            Err(_) => "ERR SerdeReject".into(),
        },
        "tokens" => {
            let (toks, nd) = json_shape::verif_hooks::tokens(&text_arg(a[1]));
            let mut s = format!("TOKS {nd}");
            for (k, st, en) in toks {
                let _ = write!(s, " {k}:{st}:{en}");
            }
            s
        }
        "parse" => {
            let (cst, nd) = json_shape::verif_hooks::parse(&text_arg(a[1]));
            format!("CST {nd} {}", hex(cst.as_bytes()))
        }
        // ---- representations
        "display" => format!("TEXT {}", hex(parse_shape(a[1]).to_string().as_bytes())),
        "ser" => {
            let s = parse_shape(a[1]);
            let t1 = serde_json::to_string(&s).unwrap();
            let t2 = serde_json::to_string(&s.clone()).unwrap();
            if t1 != t2 {
                return "ERR Nondeterministic".into();
            }
            format!("TEXT {}", hex(t1.as_bytes()))
        }
        "roundtrip" => {
            // serde_json's own guard against deep input (recursion limit 128, three JSON levels per
            // shape level) is switched off: the property is about the shape's Serialize /
            // Deserialize, not about that guard (see roundtrip_default)
            let s = parse_shape(a[1]);
            let t = serde_json::to_string(&s).unwrap();
            let mut de = serde_json::Deserializer::from_str(&t);
            de.disable_recursion_limit();
            match <JsonShape as serde::Deserialize>::deserialize(&mut de).and_then(|v| de.end().map(|()| v)) {
                Ok(s2) => format!("OK {}", shape_str(&s2)),
                Err(_) => "ERR De".into(),
            }
        }
        "roundtrip_default" => {
            let s = parse_shape(a[1]);
            let t = serde_json::to_string(&s).unwrap();
            match serde_json::from_str::<JsonShape>(&t) {
                Ok(s2) => format!("OK {}", shape_str(&s2)),
                Err(_) => "ERR De".into(),
            }
        }
        "de" => match serde_json::from_str::<JsonShape>(&text_arg(a[1])) {
            Ok(s) => format!("OK {}", shape_str(&s)),
            Err(_) => "ERR De".into(),
        },
        "allocs" => {
            // allocs <what> args : heap allocations performed by the call alone
            match a[1] {
                "subset" => {
                    let (x, y) = (parse_shape(a[2]), parse_shape(a[3]));
                    let n0 = allocs();
                    let _ = x.is_subset(&y);
                    format!("ALLOC {}", allocs() - n0)
                }
                "merge" => {
                    let v: Vec<JsonShape> = a[2..].iter().map(|s| parse_shape(s)).collect();
                    let n0 = allocs();
                    let _ = json_shape::verif_hooks::merge(&v);
                    format!("ALLOC {}", allocs() - n0)
                }
                "from_str" => {
                    let t = doc_text(a[2]);
                    let n0 = allocs();
                    let _ = JsonShape::from_str(&t);
                    format!("ALLOC {}", allocs() - n0)
                }
                "from_value" => {
                    let v: serde_json::Value = serde_json::from_str(&doc_text(a[2])).unwrap();
                    let n0 = allocs();
                    let _ = JsonShape::from(&v);
                    format!("ALLOC {}", allocs() - n0)
                }
                "from_sources" => {
                    let v: Vec<String> = a[2..].iter().map(|s| doc_text(s)).collect();
                    let n0 = allocs();
                    let _ = JsonShape::from_sources(&v);
                    format!("ALLOC {}", allocs() - n0)
                }
                _ => "ERR BadOp".into(),
            }
        }
        "depth_walk" => {
            // deepest nesting of parse_cst / parse_rule / parse_member / parse_token frames
            json_shape::verif_hooks::reset_depth();
            let _ = JsonShape::from_str(&text_arg(a[1]));
            format!("D {}", json_shape::verif_hooks::max_depth()[1])
        }
        "depth_value" => {
            let v: serde_json::Value = serde_json::from_str(&doc_text(a[1])).unwrap();
            json_shape::verif_hooks::reset_depth();
            let _ = JsonShape::from(&v);
            format!("D {}", json_shape::verif_hooks::max_depth()[0])
        }
        "depth_all" => {
            // all four families for one text through the public entry points
            json_shape::verif_hooks::reset_depth();
            let t = text_arg(a[1]);
            let r = JsonShape::from_str(&t);
            if let Ok(sh) = &r {
                let _ = sh.is_superset(&t);
                let _ = JsonShape::from_sources(&[t.clone(), t.clone()]);
            }
            if let Ok(v) = serde_json::from_str::<serde_json::Value>(&t) {
                let _ = JsonShape::from(&v);
            }
            let d = json_shape::verif_hooks::max_depth();
            format!("D {} {} {} {}", d[0], d[1], d[2], d[3])
        }
        "counts" => {
            // counts <what> args : call counters (value, text, merger, subset)
            json_shape::verif_hooks::reset_counters();
            match a[1] {
                "subset" => {
                    let _ = parse_shape(a[2]).is_subset(&parse_shape(a[3]));
                }
                "merger" => {
                    let _ = json_shape::verif_hooks::merger(parse_shape(a[2]), parse_shape(a[3]));
                }
                "infer_text" => {
                    let _ = JsonShape::from_str(&doc_text(a[2]));
                }
                "infer_value" => {
                    let v: serde_json::Value = serde_json::from_str(&doc_text(a[2])).unwrap();
                    json_shape::verif_hooks::reset_counters();
                    let _ = JsonShape::from(&v);
                }
                _ => return "ERR BadOp".into(),
            }
            let c = json_shape::verif_hooks::counters();
            format!("CNT {} {} {} {}", c[0], c[1], c[2], c[3])
        }
        op if op.starts_with("gen") || op.starts_with("compile") => genops::run(&a),
        _ => "ERR BadOp".into(),
    }
}

fn main() {
    std::panic::set_hook(Box::new(|_| {}));
    // 1 GiB by default so that the correspondence never dies of the harness's own recursion;
    // VHARNESS_STACK_KB lets a check run the library on a realistic stack (Rust's default for a
    // spawned thread is 2 MiB) so that unbounded recursion shows up as a crash
    let stack = std::env::var("VHARNESS_STACK_KB")
        .ok()
        .and_then(|v| v.parse::<usize>().ok())
        .map_or(1 << 30, |kb| kb * 1024);
    let child = std::thread::Builder::new()
        .stack_size(stack)
        .spawn(|| {
            let stdin = std::io::stdin();
            let stdout = std::io::stdout();
            let mut out = std::io::BufWriter::new(stdout.lock());
            for line in stdin.lock().lines() {
                let line = line.unwrap();
                if line.is_empty() {
                    continue;
                }
                let r = catch_unwind(AssertUnwindSafe(|| run(&line)))
                    .unwrap_or_else(|_| "PANIC".to_string());
                writeln!(out, "{r}").unwrap();
            }
            out.flush().unwrap();
        })
        .unwrap();
    child.join().unwrap();
}
