//! Generator-side operations (json_shape_build); filled in with the Gen model.
pub fn run(_a: &[&str]) -> String {
    "ERR BadOp".into()
}
