//! Generator-side operations: run the real `json_shape_build` code (hooks + `compile_json`)
//! and the real `convert_case` / `checksum` crates, printing the canonical lines that
//! `ocaml/genops.ml` prints for the model.
//!
//! `json_shape_build` links crates.io `json_shape 0.5.1` (here `json_shape_051`), so shapes
//! written in the compact syntax are converted to that twin type.
use std::collections::{BTreeMap, BTreeSet};
use std::fmt::Write as _;
use std::io::Write as _;
use std::path::{Path, PathBuf};
use std::process::{Command, Stdio};
use std::sync::atomic::{AtomicUsize, Ordering};

use convert_case::{Case, Casing};
use json_shape::JsonShape;
use json_shape_051::JsonShape as Shape051;

use crate::{hex, parse_shape, shape_str, unhex};

/// workspace type -> 0.5.1 type (same constructors and fields)
pub fn to051(s: &JsonShape) -> Shape051 {
    match s {
        JsonShape::Null => Shape051::Null,
        JsonShape::Bool { optional } => Shape051::Bool { optional: *optional },
        JsonShape::Number { optional } => Shape051::Number { optional: *optional },
        JsonShape::String { optional } => Shape051::String { optional: *optional },
        JsonShape::Array { r#type, optional } => Shape051::Array {
            r#type: Box::new(to051(r#type)),
            optional: *optional,
        },
        JsonShape::Object { content, optional } => Shape051::Object {
            content: content.iter().map(|(k, v)| (k.clone(), to051(v))).collect::<BTreeMap<_, _>>(),
            optional: *optional,
        },
        JsonShape::OneOf { variants, optional } => Shape051::OneOf {
            variants: variants.iter().map(to051).collect::<BTreeSet<_>>(),
            optional: *optional,
        },
        JsonShape::Tuple { elements, optional } => Shape051::Tuple {
            elements: elements.iter().map(to051).collect(),
            optional: *optional,
        },
    }
}

/// 0.5.1 type -> workspace type (for printing in the compact syntax)
pub fn from051(s: &Shape051) -> JsonShape {
    match s {
        Shape051::Null => JsonShape::Null,
        Shape051::Bool { optional } => JsonShape::Bool { optional: *optional },
        Shape051::Number { optional } => JsonShape::Number { optional: *optional },
        Shape051::String { optional } => JsonShape::String { optional: *optional },
        Shape051::Array { r#type, optional } => JsonShape::Array {
            r#type: Box::new(from051(r#type)),
            optional: *optional,
        },
        Shape051::Object { content, optional } => JsonShape::Object {
            content: content.iter().map(|(k, v)| (k.clone(), from051(v))).collect::<BTreeMap<_, _>>(),
            optional: *optional,
        },
        Shape051::OneOf { variants, optional } => JsonShape::OneOf {
            variants: variants.iter().map(from051).collect::<BTreeSet<_>>(),
            optional: *optional,
        },
        Shape051::Tuple { elements, optional } => JsonShape::Tuple {
            elements: elements.iter().map(from051).collect(),
            optional: *optional,
        },
    }
}

fn shape051(arg: &str) -> Shape051 {
    to051(&parse_shape(arg))
}

fn text(s: &str) -> String {
    format!("TEXT {}", hex(s.as_bytes()))
}

fn arg_text(s: &str) -> String {
    if s == "-" {
        String::new()
    } else {
        String::from_utf8(unhex(s)).expect("text args must be UTF-8")
    }
}

fn cache_dir() -> PathBuf {
    // <root>/.cache/harness-target/release/vharness
    let exe = std::env::current_exe().unwrap();
    exe.parent().unwrap().parent().unwrap().parent().unwrap().to_path_buf()
}

static COUNTER: AtomicUsize = AtomicUsize::new(0);

fn list_files(root: &Path, dir: &Path, out: &mut Vec<(Vec<u8>, Vec<u8>)>) {
    let Ok(rd) = std::fs::read_dir(dir) else { return };
    let mut entries: Vec<_> = rd.filter_map(Result::ok).collect();
    entries.sort_by_key(std::fs::DirEntry::file_name);
    for e in entries {
        let p = e.path();
        if p.is_dir() {
            list_files(root, &p, out);
        } else {
            // raw bytes: OUT_DIR (hence the path) need not be UTF-8
            let rel = std::os::unix::ffi::OsStrExt::as_bytes(p.strip_prefix(root).unwrap().as_os_str()).to_vec();
            out.push((rel, std::fs::read(&p).unwrap_or_default()));
        }
    }
}

/// `compile <hexname> <outdir: - | hex of path relative to the sandbox> <src>...`
/// with src = `T<hextext>` (file with that content) | `M` (missing) | `D` (a directory).
/// Runs in a child process (compile_json prints to stdout, reads OUT_DIR and the cwd).
fn compile_parent(a: &[&str], stale: bool) -> String {
    let n = COUNTER.fetch_add(1, Ordering::SeqCst);
    let root = cache_dir().join("gen-tmp").join(format!("{}-{}", std::process::id(), n));
    let _ = std::fs::remove_dir_all(&root);
    std::fs::create_dir_all(root.join("src")).unwrap();
    std::fs::create_dir_all(root.join("cwd")).unwrap();
    let mut line = format!("gen_compile_child\t{}", hex(root.to_string_lossy().as_bytes()));
    for x in &a[1..] {
        line.push('\t');
        line.push_str(x);
    }
    line.push('\n');
    let mut child = Command::new(std::env::current_exe().unwrap())
        .stdin(Stdio::piped())
        .stdout(Stdio::piped())
        .stderr(Stdio::null())
        .env_remove("OUT_DIR")
        .env("VERIF_STALE", if stale { "1" } else { "0" })
        .spawn()
        .unwrap();
    child.stdin.take().unwrap().write_all(line.as_bytes()).unwrap();
    let out = child.wait_with_output().unwrap();
    let stdout = String::from_utf8_lossy(&out.stdout).to_string();
    let _ = std::fs::remove_dir_all(&root);
    let mut prints = Vec::new();
    let mut result = None;
    for l in stdout.lines() {
        if let Some(p) = l.strip_prefix("cargo:") {
            prints.push(format!("cargo:{p}"));
        } else if l.starts_with("RET ") || l == "PANIC" {
            result = Some(l.to_string());
        }
    }
    let Some(result) = result else {
        return format!("ERR ChildFailed rc={:?}", out.status.code());
    };
    if result == "PANIC" {
        return "RET PANIC".into();
    }
    // prints of the first of the two in-process runs only
    let half = prints.len() / 2;
    let mut s = result;
    s.push_str(" PRINTS");
    let rs = root.to_string_lossy().to_string();
    for p in &prints[..half] {
        let _ = write!(s, " {}", hex(p.replace(&rs, "$R").as_bytes()));
    }
    s
}

fn compile_child(a: &[&str]) -> String {
    let root = PathBuf::from(arg_text(a[1]));
    let name: &'static str = Box::leak(arg_text(a[2]).into_boxed_str());
    let cwd = root.join("cwd");
    std::env::set_current_dir(&cwd).unwrap();
    let out_dir = if a[3] == "-" {
        None
    } else {
        let rel: std::ffi::OsString = std::os::unix::ffi::OsStringExt::from_vec(unhex(a[3]));
        let d = root.join(rel);
        std::fs::create_dir_all(&d).unwrap();
        Some(d)
    };
    // SAFETY: single-threaded child process
    unsafe {
        match &out_dir {
            Some(d) => std::env::set_var("OUT_DIR", d),
            None => std::env::remove_var("OUT_DIR"),
        }
    }
    let mut paths: Vec<PathBuf> = Vec::new();
    for (i, spec) in a[4..].iter().enumerate() {
        let mut p = root.join("src").join(format!("s{i}.json"));
        match spec.as_bytes().first() {
            Some(b'T') => std::fs::write(&p, unhex(&spec[1..])).unwrap(),
            // same base name in a directory of its own: src/d<i>/sample.json
            Some(b'S') => {
                let dir = root.join("src").join(format!("d{i}"));
                std::fs::create_dir_all(&dir).unwrap();
                p = dir.join("sample.json");
                std::fs::write(&p, unhex(&spec[1..])).unwrap();
            }
            Some(b'D') => std::fs::create_dir_all(&p).unwrap(),
            // R<j>: the path of source j listed once more
            Some(b'R') => {
                let j: usize = spec[1..].parse().unwrap();
                p = paths[j].clone();
            }
            _ => {}
        }
        paths.push(p);
    }
    if std::env::var("VERIF_STALE").as_deref() == Ok("1") {
        // a previous, longer build output at the path the include macro reads
        let dir = out_dir.clone().unwrap_or_else(|| cwd.clone());
        let stale = dir.join(format!("{name}.gen.shape.rs"));
        let _ = std::fs::write(&stale, "// stale output of an earlier build\n".repeat(2000));
    }
    let r1 = json_shape_build::compile_json(name, &paths);
    let mut files1 = Vec::new();
    list_files(&root, &root, &mut files1);
    let r2 = json_shape_build::compile_json(name, &paths);
    let mut files2 = Vec::new();
    list_files(&root, &root, &mut files2);
    let same = match (&r1, &r2) {
        (Ok(x), Ok(y)) => x == y,
        (Err(x), Err(y)) => x.kind() == y.kind(),
        _ => false,
    } && files1 == files2;
    let mut s = match &r1 {
        Ok(t) => format!("RET OK {}", hex(t.as_bytes())),
        Err(e) => format!("RET ERR {:?}", e.kind()),
    };
    let _ = write!(s, " DET {}", u8::from(same));
    s.push_str(" FILES");
    for (rel, bytes) in &files1 {
        if rel.starts_with(b"src/") {
            continue;
        }
        let _ = write!(s, " {}:{}", hex(rel), hex(bytes));
    }
    s
}

pub fn run(a: &[&str]) -> String {
    match a[0] {
        "gen_render" => text(&json_shape_build::verif_hooks::render(&shape051(a[1]))),
        "gen_name" => text(&json_shape_build::verif_hooks::shape_name(&shape051(a[1]))),
        "gen_repr" => text(&json_shape_build::verif_hooks::shape_representation(&shape051(a[1]))),
        "gen_case" => {
            let x = arg_text(a[2]);
            match a[1] {
                "snake" => text(&x.to_case(Case::Snake)),
                "pascal" => text(&x.to_case(Case::Pascal)),
                _ => "ERR BadOp".into(),
            }
        }
        "gen_crc" => {
            let mut crc = checksum::crc32::Crc32::new();
            crc.update(&unhex(if a[1] == "-" { "" } else { a[1] }));
            crc.finalize();
            text(&format!("{:X}", crc.getsum()))
        }
        // json_shape 0.5.1 inference on texts: what compile_json feeds the generator
        "gen_infer051" => {
            let v: Vec<String> = a[1..].iter().map(|s| arg_text(s)).collect();
            match Shape051::from_sources(&v) {
                Ok(s) => format!("OK {}", shape_str(&from051(&s))),
                Err(_) => "ERR Infer".into(),
            }
        }
        "compile" => compile_parent(a, false),
        // same, but a longer stale file already sits where the include macro reads
        "compile_stale" => compile_parent(a, true),
        "gen_compile_child" => compile_child(a),
        _ => "ERR BadOp".into(),
    }
}
